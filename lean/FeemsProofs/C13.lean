/-
C13 — the protobuf system description round-trips to an identically behaving system.
Theorems about `Feems.Proto.toProto` / `toFeems` (the model of the two converters after the repairs
D10a-d,g).  The enum facts are kernel-evaluated on tables REGENERATED from the Python enums and the
compiled protobuf descriptors on every run.
-/
import FeemsProofs.Prelude
import FeemsModel.Model.Proto
import FeemsModel.Generated.EnumTables

set_option linter.unusedSimpArgs false
set_option linter.unusedVariables false
set_option maxRecDepth 4000

namespace Feems.Props.C13
open Feems Feems.Proto

/-! ### The representable class -/

def countT : List Stage → Nat
  | [] => 0
  | .transformer _ :: r => countT r + 1
  | _ :: r => countT r
def countC : List Stage → Nat
  | [] => 0
  | .converter _ :: r => countC r + 1
  | _ :: r => countC r
def countM : List Stage → Nat
  | [] => 0
  | .machine _ :: r => countM r + 1
  | _ :: r => countM r

/-- A serial train fits the message's slots: at least two stages (a single stage comes back as a
plain component), at most one transformer, two converters and one machine (D10f). -/
def RepStages (st : List Stage) : Prop := 2 ≤ st.length ∧ countT st ≤ 1 ∧ countC st ≤ 2 ∧ countM st ≤ 1

/-- A PTI/PTO may also have a single member (it stays a PTI/PTO: repo 1ca4f7b). -/
def RepStagesPti (st : List Stage) : Prop := 1 ≤ st.length ∧ countT st ≤ 1 ∧ countC st ≤ 2 ∧ countM st ≤ 1

def RepE : EComp → Prop
  | .serial _ _ _ _ st => RepStagesPti st      -- (a propulsion drive may have a single member as well: repo 3b499f2)
  | _ => True

/-- Switchboards are numbered 1..n (the breaker chain is implied by position: D10e) and every
PTI/PTO named on a shaft line exists on the electric side. -/
def Representable (s : Sys) : Prop :=
  (∀ p ∈ s.swbs, ∀ c ∈ p.2, RepE c) ∧
  (∀ p ∈ s.lines, ∀ c ∈ p.2, ∀ n, c = MComp.pti n →
    ∃ r sp st, EComp.serial true n r sp st ∈ allPtis s ∧
      (allPtis s).find? (isPtiNamed n) = some (.serial true n r sp st))

/-! ### Round trip of one component -/

theorem stages_roundtrip (base : Sub) (hb : base.machine = none ∧ base.transformer = none ∧ base.conv1 = none ∧ base.conv2 = none)
    (st : List Stage) (h : RepStagesPti st) : stagesOf (putStages base st 1) = st.map Stage.norm := by
  obtain ⟨h2, hT, hC, hM⟩ := h
  obtain ⟨b1, b2, b3, b4⟩ := hb
  -- at most four stages
  have hlen : st.length ≤ 4 := by
    have : ∀ l : List Stage, l.length = countT l + countC l + countM l := by
      intro l; induction l with
      | nil => rfl
      | cons x l ih => cases x <;> simp [countT, countC, countM, ih] <;> omega
    rw [this st]; omega
  match st, h2, hlen, hT, hC, hM with
  | [a], _, _, hT, hC, hM =>
    cases a <;>
      simp_all [countT, countC, countM, putStages, stagesOf, insertByOrder, Stage.norm, Option.toList]
  | [a, b], _, _, hT, hC, hM =>
    cases a <;> cases b <;>
      simp_all [countT, countC, countM, putStages, stagesOf, insertByOrder, Stage.norm, Option.toList]
  | [a, b, c], _, _, hT, hC, hM =>
    cases a <;> cases b <;> cases c <;>
      simp_all [countT, countC, countM, putStages, stagesOf, insertByOrder, Stage.norm, Option.toList]
  | [a, b, c, d], _, _, hT, hC, hM =>
    cases a <;> cases b <;> cases c <;> cases d <;>
      simp_all [countT, countC, countM, putStages, stagesOf, insertByOrder, Stage.norm, Option.toList]

theorem putStages_keeps (base : Sub) (st : List Stage) (k : Nat) :
    (putStages base st k).componentType = base.componentType ∧ (putStages base st k).name = base.name ∧
    (putStages base st k).rated = base.rated ∧ (putStages base st k).speed = base.speed ∧
    (putStages base st k).otherLoad = base.otherLoad ∧ (putStages base st k).powerType = base.powerType := by
  induction st generalizing base k with
  | nil => simp [putStages]
  | cons s st ih =>
    cases s <;> simp only [putStages]
    · exact ih _ _
    · split <;> exact ih _ _
    · exact ih _ _

/-- **Round trip, electric side.** Every representable switchboard component comes back as its
normal form. -/
theorem roundtrip_ecomp (c : EComp) (h : RepE c) : subToEComp (ecompToSub c) = .ok c.norm := by
  cases c with
  | serial pti n r s st =>
    have hst : RepStagesPti st := h
    set base : Sub := { powerType := if pti then pPtiPto else pConsumer, componentType := if pti then tPtiPto else tDrive,
                        name := n, rated := r, speed := s } with hbase
    have hk := putStages_keeps base st 1
    have hs := stages_roundtrip base ⟨rfl, rfl, rfl, rfl⟩ st hst
    unfold subToEComp
    simp only [ecompToSub, ← hbase, hk.1, hk.2.1, hk.2.2.1, hk.2.2.2.1, hk.2.2.2.2.1, hs]
    have hlen : 1 ≤ (st.map Stage.norm).length := by simpa using hst.1
    cases pti <;> (
      simp only [hbase, tPtiPto, tDrive, tFuelCellSys, tGenset, tCoges, tBatterySys, tBattery, tSupercapSys, tSupercap, tOtherLoad, tGenerator]
      match hm : st.map Stage.norm, hlen with
      | [a], _ => simp [EComp.norm, hm]
      | a :: b :: rest, _ => simp [EComp.norm, hm])
  | generator m => simp [ecompToSub, subToEComp, stagesOf, insertByOrder, EComp.norm, tGenerator, tPtiPto, tDrive, tFuelCellSys, tGenset, tCoges, tBatterySys, tBattery, tSupercapSys, tSupercap, tOtherLoad, Option.toList]
  | genset n e g => simp [ecompToSub, subToEComp, EComp.norm, tGenset, tFuelCellSys]
  | fuelCell n fc c => simp [ecompToSub, subToEComp, EComp.norm, FuelCell.norm, tFuelCellSys]
  | coges n cg g => simp [ecompToSub, subToEComp, EComp.norm, tCoges, tGenset, tFuelCellSys]
  | load c => simp [ecompToSub, subToEComp, stagesOf, EComp.norm, tGenerator, tFuelCellSys, tGenset, tCoges, tBatterySys, tBattery, tSupercapSys, tSupercap, tOtherLoad, Option.toList]
  | battery b => simp [ecompToSub, subToEComp, EComp.norm, tFuelCellSys, tGenset, tCoges, tBatterySys, tBattery]
  | batterySys n b c => simp [ecompToSub, subToEComp, EComp.norm, tFuelCellSys, tGenset, tCoges, tBatterySys]
  | supercap s => simp [ecompToSub, subToEComp, EComp.norm, tFuelCellSys, tGenset, tCoges, tBatterySys, tBattery, tSupercapSys, tSupercap]
  | supercapSys n s c => simp [ecompToSub, subToEComp, EComp.norm, tFuelCellSys, tGenset, tCoges, tBatterySys, tBattery, tSupercapSys]

theorem mcompToSub_pti (ptis : List EComp) (n : String) (r sp : Rat) (st : List Stage)
    (hf : ptis.find? (isPtiNamed n) = some (.serial true n r sp st)) :
    mcompToSub ptis (.pti n) = some (ecompToSub (.serial true n r sp st)) := by
  show Option.map ecompToSub _ = _
  rw [hf]; rfl

/-- **Round trip, shaft-line side.** -/
theorem roundtrip_mcomp (ptis : List EComp) (c : MComp)
    (h : ∀ n, c = .pti n → ∃ r sp st, ptis.find? (isPtiNamed n) = some (.serial true n r sp st)) :
    (mcompToSub ptis c).map subToMComp = some (.ok c.norm) := by
  cases c with
  | engine n e => simp [mcompToSub, subToMComp, MComp.norm, tMainEngine]
  | geared n e g => simp [mcompToSub, subToMComp, MComp.norm, tMainEngine, tGeared]
  | propeller n r sp eff => simp [mcompToSub, subToMComp, MComp.norm, tMainEngine, tGeared, tPtiPto, tPropeller]
  | pti n =>
    obtain ⟨r, sp, st, hf⟩ := h n rfl
    have hk := putStages_keeps { powerType := pPtiPto, componentType := tPtiPto, name := n, rated := r, speed := sp } st 1
    rw [mcompToSub_pti ptis n r sp st hf, Option.map_some]
    congr 1
    unfold subToMComp
    simp only [ecompToSub, if_true]
    rw [hk.1, hk.2.1]
    simp [tMainEngine, tGeared, tPtiPto, MComp.norm]

theorem mapM_ok {α β : Type} (f : α → Except String β) (g : α → β) (l : List α) (h : ∀ a ∈ l, f a = .ok (g a)) :
    l.mapM f = .ok (l.map g) := by
  induction l with
  | nil => rfl
  | cons a l ih =>
    rw [List.mapM_cons, h a (by simp), ih (fun x hx => h x (List.mem_cons_of_mem _ hx))]
    rfl

theorem mapM_some {α β : Type} (f : α → Option β) (g : α → β) (l : List α) (h : ∀ a ∈ l, f a = some (g a)) :
    l.mapM f = some (l.map g) := by
  induction l with
  | nil => rfl
  | cons a l ih =>
    rw [List.mapM_cons, h a (by simp), ih (fun x hx => h x (List.mem_cons_of_mem _ hx))]
    rfl

/-- **Round trip of a whole system**: converting to the description and back yields the normal
form of the system — the same switchboards and shaft lines with the same components in the same
order, every rating, curve point, fuel and origin, cycle, NOx method, emission curve, storage
parameter, gearbox and module count unchanged (single values as constant curves). -/
theorem roundtrip (s : Sys) (h : Representable s) : ∃ m, toProto s = some m ∧ toFeems m = .ok s.norm := by
  obtain ⟨hE, hM⟩ := h
  -- the shaft lines convert
  have hlines : s.lines.mapM (fun (p : Nat × List MComp) => do
        let subs ← p.2.mapM (mcompToSub (allPtis s)); pure (p.1, subs)) =
      some (s.lines.map fun p => (p.1, p.2.map fun c => (mcompToSub (allPtis s) c).getD default)) := by
    apply mapM_some
    intro p hp
    have : p.2.mapM (mcompToSub (allPtis s)) = some (p.2.map fun c => (mcompToSub (allPtis s) c).getD default) := by
      apply mapM_some
      intro c hc
      cases c with
      | pti n =>
        obtain ⟨r, sp, st, _, hf⟩ := hM p hp (.pti n) hc n rfl
        rw [mcompToSub_pti _ n r sp st hf]; rfl
      | engine n e => simp [mcompToSub]
      | geared n e g => simp [mcompToSub]
      | propeller n r sp eff => simp [mcompToSub]
    simp [this]
  refine ⟨{ name := s.name, kind := s.kind, swbs := s.swbs.map fun (i, cs) => (i, cs.map ecompToSub),
            lines := s.lines.map fun p => (p.1, p.2.map fun c => (mcompToSub (allPtis s) c).getD default) }, ?_, ?_⟩
  · unfold toProto
    simp only [hlines]
    rfl
  · unfold toFeems
    have h1 : (s.swbs.map fun (i, cs) => (i, cs.map ecompToSub)).mapM (fun (p : Nat × List Sub) => do
          let cs ← p.2.mapM subToEComp; pure (p.1, cs)) = .ok (s.swbs.map fun (i, cs) => (i, cs.map EComp.norm)) := by
      rw [List.mapM_map]
      apply mapM_ok
      intro p hp
      have : (p.2.map ecompToSub).mapM subToEComp = .ok (p.2.map EComp.norm) := by
        rw [List.mapM_map]
        exact mapM_ok _ _ _ (fun c hc => roundtrip_ecomp c (hE p hp c hc))
      simp [this]
    have h2 : (s.lines.map fun p => (p.1, p.2.map fun c => (mcompToSub (allPtis s) c).getD default)).mapM
          (fun (p : Nat × List Sub) => do let cs ← p.2.mapM subToMComp; pure (p.1, cs)) =
        .ok (s.lines.map fun (i, cs) => (i, cs.map MComp.norm)) := by
      rw [List.mapM_map]
      apply mapM_ok
      intro p hp
      have : (p.2.map fun c => (mcompToSub (allPtis s) c).getD default).mapM subToMComp = .ok (p.2.map MComp.norm) := by
        rw [List.mapM_map]
        apply mapM_ok
        intro c hc
        have hr := roundtrip_mcomp (allPtis s) c (fun n hn => by
          obtain ⟨r, sp, st, _, hf⟩ := hM p hp c hc n hn
          exact ⟨r, sp, st, hf⟩)
        cases hm : mcompToSub (allPtis s) c with
        | none => rw [hm] at hr; simp at hr
        | some sub =>
          rw [hm] at hr
          show subToMComp ((mcompToSub (allPtis s) c).getD default) = Except.ok c.norm
          rw [hm]
          simpa using hr
      simp [this]
    simp only [h1, h2]
    rfl

/-! ### Stability after the first pass -/

theorem curve_norm_idem (c : Curve) : c.norm.norm = c.norm := by cases c <;> rfl

theorem ecomp_norm_rep (c : EComp) (h : RepE c) : RepE c.norm := by
  cases c with
  | serial pti n r s st =>
    have hc : ∀ l : List Stage, countT (l.map Stage.norm) = countT l ∧ countC (l.map Stage.norm) = countC l ∧
        countM (l.map Stage.norm) = countM l := by
      intro l; induction l with
      | nil => exact ⟨rfl, rfl, rfl⟩
      | cons x l ih => cases x <;> simp [countT, countC, countM, Stage.norm, ih]
    obtain ⟨h2, hT, hC, hM⟩ := (h : RepStagesPti st)
    exact (⟨by simpa using h2, (hc st).1 ▸ hT, (hc st).2.1 ▸ hC, (hc st).2.2 ▸ hM⟩ : RepStagesPti (st.map Stage.norm))
  | _ => trivial

theorem engine_norm_idem (e : Engine) : e.norm.norm = e.norm := by
  cases e with
  | mk n r sp b f nx em cy pilot => cases pilot <;> simp [Engine.norm, curve_norm_idem]

theorem stage_norm_idem (x : Stage) : x.norm.norm = x.norm := by
  cases x <;> simp [Stage.norm, Conv.norm, Machine.norm, curve_norm_idem]

/-- The normal form is a fixed point of the normalisation … -/
theorem ecomp_norm_idem (c : EComp) : c.norm.norm = c.norm := by
  cases c with
  | serial pti n r s st =>
    simp only [EComp.norm, List.map_map]
    congr 1
    apply List.map_congr_left
    intro x _; exact stage_norm_idem x
  | generator m => simp [EComp.norm, Machine.norm, curve_norm_idem]
  | genset n e g => simp [EComp.norm, Machine.norm, engine_norm_idem, curve_norm_idem]
  | fuelCell n fc c => simp [EComp.norm, Conv.norm, FuelCell.norm, curve_norm_idem]
  | coges n cg g => simp [EComp.norm, Machine.norm, Cogas.norm, curve_norm_idem]
  | load c => simp [EComp.norm, Conv.norm, curve_norm_idem]
  | battery b => rfl
  | batterySys n b c => simp [EComp.norm, Conv.norm, curve_norm_idem]
  | supercap s => rfl
  | supercapSys n s c => simp [EComp.norm, Conv.norm, curve_norm_idem]

/-- … so a second round trip changes nothing: the description is **stable after the first pass**. -/
theorem second_pass_identity (c : EComp) (h : RepE c) : subToEComp (ecompToSub c.norm) = .ok c.norm := by
  have := roundtrip_ecomp c.norm (ecomp_norm_rep c h)
  rwa [ecomp_norm_idem] at this

/-! ### The normal form behaves identically -/

/-- An interpretation of curves respects the constant-curve contract when a single value and the
two-point constant curve through it are the same function (PCHIP through two equal ordinates, or
the constant lambda of `get_efficiency_curve_from_points`). -/
def ConstantContract (interp : Curve → Rat → Rat) : Prop :=
  ∀ v, interp (.points [(0, v), (1, v)]) = interp (.value v)

theorem curve_norm_behaviour (interp : Curve → Rat → Rat) (h : ConstantContract interp) (c : Curve) :
    interp c.norm = interp c := by
  cases c with
  | value v => exact h v
  | points p => rfl

/-- Everything else the simulation reads is untouched by the normal form. -/
theorem norm_keeps_attributes (e : Engine) (m : Machine) (c : Conv) (g : Gear) (fc : FuelCell) (cg : Cogas) :
    (e.norm.rated = e.rated ∧ e.norm.speed = e.speed ∧ e.norm.fuel = e.fuel ∧ e.norm.nox = e.nox ∧ e.norm.emis = e.emis ∧
      e.norm.cycle = e.cycle ∧ e.norm.pilot.map (·.2) = e.pilot.map (·.2)) ∧
    (m.norm.rated = m.rated ∧ m.norm.speed = m.speed) ∧ c.norm.rated = c.rated ∧ (g.norm.rated = g.rated ∧ g.norm.speed = g.speed) ∧
    (fc.norm.rated = fc.rated ∧ fc.norm.fuel = fc.fuel ∧ fc.norm.modules = max 1 fc.modules) ∧
    (cg.norm.rated = cg.rated ∧ cg.norm.fuel = cg.fuel ∧ cg.norm.nox = cg.nox ∧ cg.norm.split = cg.split ∧ cg.norm.emis = cg.emis) := by
  refine ⟨⟨rfl, rfl, rfl, rfl, rfl, rfl, ?_⟩, ⟨rfl, rfl⟩, rfl, ⟨rfl, rfl⟩, ⟨rfl, rfl, rfl⟩, ⟨rfl, rfl, rfl, rfl, rfl⟩⟩
  simp [Engine.norm, Option.map_map, Function.comp_def]

/-! ### Enum tables (generated) -/

open Feems.Generated.Enums in
/-- Every FEEMS enum member that travels as a number has a member with the same number in the
message's enum, with the same name wherever the two sides name it (the message renames the zero
members `NONE1`/`NONE2` and calls power type 5 `SHORE_CONNECTION`); the NOx method travels by name
and both sides have the same names; the component and power type numbers the model uses are the
generated ones. -/
theorem enums :
    (∀ p ∈ typeComponentFeems, p ∈ typeComponentProto) ∧
    (∀ p ∈ typeFuelFeems, p ∈ typeFuelProto) ∧
    (∀ p ∈ emissionTypeFeems, p ∈ emissionTypeProto) ∧
    (∀ p ∈ engineCycleFeems, p ∈ engineCycleProto) ∧
    (∀ p ∈ fuelOriginFeems, p.2 ∈ fuelOriginProto.map (·.2) ∧ (p.2 ≠ 0 → p ∈ fuelOriginProto)) ∧
    (∀ p ∈ typePowerFeems, p.2 ∈ typePowerProto.map (·.2) ∧ (p.2 ≠ 0 → p.2 ≠ 5 → p ∈ typePowerProto)) ∧
    (∀ n ∈ noxFeems, n ∈ noxProto.map (·.1)) ∧ (∀ p ∈ noxProto, p.1 ∈ noxFeems) ∧
    (∀ p ∈ [("GENSET", tGenset), ("GENERATOR", tGenerator), ("FUEL_CELL_SYSTEM", tFuelCellSys), ("COGES", tCoges),
        ("OTHER_LOAD", tOtherLoad), ("PROPULSION_DRIVE", tDrive), ("PTI_PTO_SYSTEM", tPtiPto), ("BATTERY", tBattery),
        ("BATTERY_SYSTEM", tBatterySys), ("SUPERCAPACITOR", tSupercap), ("SUPERCAPACITOR_SYSTEM", tSupercapSys),
        ("MAIN_ENGINE", tMainEngine), ("MAIN_ENGINE_WITH_GEARBOX", tGeared), ("PROPELLER_LOAD", tPropeller)], p ∈ typeComponentFeems) ∧
    (∀ p ∈ [("POWER_SOURCE", pSource), ("POWER_CONSUMER", pConsumer), ("PTI_PTO", pPtiPto), ("ENERGY_STORAGE", pStorage)],
      p ∈ typePowerFeems) := by
  refine ⟨by decide, by decide, by decide, by decide, by decide, by decide, by decide, by decide, by decide, by decide⟩

/-! ### The breaker chain of the plant read back -/

/-- Every breaker the reader invents joins two switchboards of the plant (no `KeyError`), and there is one less than
there are switchboards. -/
theorem mem_insertSorted (a x : Nat) (l : List Nat) : x ∈ insertSorted a l ↔ x = a ∨ x ∈ l := by
  induction l with
  | nil => simp [insertSorted]
  | cons b r ih =>
    unfold insertSorted
    split
    · simp
    · simp [ih]; tauto

theorem length_insertSorted (a : Nat) (l : List Nat) : (insertSorted a l).length = l.length + 1 := by
  induction l with
  | nil => simp [insertSorted]
  | cons b r ih => unfold insertSorted; split <;> simp [ih]

theorem mem_sortIds (x : Nat) (ids : List Nat) : x ∈ sortIds ids ↔ x ∈ ids := by
  induction ids with
  | nil => simp [sortIds]
  | cons a r ih =>
    have : sortIds (a :: r) = insertSorted a (sortIds r) := rfl
    rw [this, mem_insertSorted, ih]; simp

theorem length_sortIds (ids : List Nat) : (sortIds ids).length = ids.length := by
  induction ids with
  | nil => simp [sortIds]
  | cons a r ih =>
    have : sortIds (a :: r) = insertSorted a (sortIds r) := rfl
    rw [this, length_insertSorted, ih]; simp

theorem chain_members (ids : List Nat) : ∀ p ∈ chainOf ids, p.1 ∈ ids ∧ p.2 ∈ ids := by
  intro p hp
  unfold chainOf at hp
  have h := List.of_mem_zip (a := p.1) (b := p.2) hp
  exact ⟨(mem_sortIds _ _).mp h.1, (mem_sortIds _ _).mp (List.mem_of_mem_tail h.2)⟩

theorem chain_length (ids : List Nat) : (chainOf ids).length = ids.length - 1 := by
  unfold chainOf
  simp [List.length_zip, length_sortIds]

/-- Numbers 1..n in any order come back as (1,2),(2,3),…: the class the earlier reader covered is kept. -/
example : chainOf [3, 1, 2] = [(1, 2), (2, 3)] ∧ chainOf [2, 5] = [(2, 5)] ∧ chainOf [7] = [] := by decide +kernel

/-- As found, the chain named switchboards that are not there. -/
theorem chain_legacy_missing : ∃ p ∈ chainLegacy [2, 5], p.1 ∉ [2, 5] := by decide

/-! ### Non-vacuity -/

def exDrive : EComp := .serial false "drive" 1000 900
  [.transformer ⟨"t", 1000, .value (99 / 100)⟩, .converter ⟨"c", 1000, .points [(1/4, 95/100), (1, 97/100)]⟩, .machine ⟨"m", 1000, 900, .value (96 / 100)⟩]

example : RepE exDrive ∧ subToEComp (ecompToSub exDrive) = .ok exDrive.norm ∧ exDrive.norm ≠ exDrive := by
  refine ⟨⟨by decide, by decide, by decide, by decide⟩, roundtrip_ecomp exDrive ⟨by decide, by decide, by decide, by decide⟩, by decide⟩

/-- A PTI/PTO with a single member is inside the class (as found, the reader refused it). -/
example : RepE (.serial true "pti" 500 1000 [.machine ⟨"m", 500, 1000, .value (96 / 100)⟩]) ∧
    subToEComp (ecompToSub (.serial true "pti" 500 1000 [.machine ⟨"m", 500, 1000, .value (96 / 100)⟩])) =
      .ok (.serial true "pti" 500 1000 [.machine ⟨"m", 500, 1000, .points [(0, 96 / 100), (1, 96 / 100)]⟩]) := by
  refine ⟨⟨by decide, by decide, by decide, by decide⟩, by decide +kernel⟩

/-- Outside the representable class information is lost: a third converter overwrites the second slot. -/
theorem three_converters_lose_one :
    subToEComp (ecompToSub (.serial false "d" 100 0
      [.converter ⟨"a", 100, .value 1⟩, .converter ⟨"b", 100, .value 1⟩, .converter ⟨"c", 100, .value 1⟩])) =
    .ok (.serial false "d" 100 0 [.converter ⟨"a", 100, .points [(0, 1), (1, 1)]⟩, .converter ⟨"c", 100, .points [(0, 1), (1, 1)]⟩]) := by
  decide +kernel

end Feems.Props.C13
