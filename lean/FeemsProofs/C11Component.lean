/-
C11, continued — additivity over time at the level of one component's result
(`get_fuel_emission_energy_balance_for_component`, model `CompResult.eval`): the figures a component
reports for a series are the sums of the figures it reports for the consecutive parts of the
series.  Together with C10 (`fold_eq_sum`) this carries additivity from the components to the
system totals.
-/
import FeemsProofs.C11
import FeemsProofs.C10Component

set_option linter.unusedSimpArgs false
set_option linter.unusedVariables false

namespace Feems.Props.C11
open Feems Feems.CompResult Feems.Engine Feems.Props.C17

theorem dot_append : ∀ (a c b d : List Rat), a.length = c.length →
    dot (a ++ b) (c ++ d) = dot a c + dot b d
  | [], [], b, d, _ => by simp [dot_nil_left]
  | [], _ :: _, _, _, h => by simp at h
  | _ :: _, [], _, _, h => by simp at h
  | x :: a, y :: c, b, d, h => by
    have ih := dot_append a c b d (by simpa using h)
    simp only [List.cons_append, dot_cons, ih]; ring

theorem plusPart_append (a b : List Rat) : plusPart (a ++ b) = plusPart a ++ plusPart b := by
  simp [plusPart]

theorem minusPart_append (a b : List Rat) : minusPart (a ++ b) = minusPart a ++ minusPart b := by
  simp [minusPart]

/-- Field-wise sum of two sets of figures. -/
def addFig (x y : Figures) : Figures :=
  { consElectric := x.consElectric + y.consElectric, consMechanical := x.consMechanical + y.consMechanical,
    stored := x.stored + y.stored, inputMechanical := x.inputMechanical + y.inputMechanical,
    inputElectric := x.inputElectric + y.inputElectric, propulsion := x.propulsion + y.propulsion,
    auxiliary := x.auxiliary + y.auxiliary, hoursMain := x.hoursMain + y.hoursMain,
    hoursGenset := x.hoursGenset + y.hoursGenset, hoursFuelCell := x.hoursFuelCell + y.hoursFuelCell,
    hoursPtiPto := x.hoursPtiPto + y.hoursPtiPto }

/-- **A component's figures are additive over consecutive parts of the series** — every kind of
component, either side for a PTI/PTO; the stored energy of a storage unit is taken to be additive
(that is C17's `energy` over an appended series). -/
theorem component_figures_append (k : Kind) (mech : Bool) (po1 po2 pi1 pi2 d1 d2 : List Rat)
    (f1 f2 f12 : List (Fuel.Kind × List Rat)) (s1 s2 : Rat) (l1 l2 l12 : List Rat)
    (hpo : po1.length = d1.length) (hpi : pi1.length = d1.length) :
    (eval k mech (po1 ++ po2) (pi1 ++ pi2) (d1 ++ d2) f12 (s1 + s2) l12).fig =
      addFig (eval k mech po1 pi1 d1 f1 s1 l1).fig (eval k mech po2 pi2 d2 f2 s2 l2).fig := by
  have hh := running_hours_append po1 po2 d1 d2 hpo
  have h1 := dot_append po1 d1 po2 d2 hpo
  have h2 := dot_append pi1 d1 pi2 d2 hpi
  have h3 := dot_append (plusPart pi1) d1 (plusPart pi2) d2 (by simpa [plusPart] using hpi)
  have h4 := dot_append (minusPart pi1) d1 (minusPart pi2) d2 (by simpa [minusPart] using hpi)
  have ext : ∀ x y : Figures, x.consElectric = y.consElectric → x.consMechanical = y.consMechanical → x.stored = y.stored →
      x.inputMechanical = y.inputMechanical → x.inputElectric = y.inputElectric → x.propulsion = y.propulsion →
      x.auxiliary = y.auxiliary → x.hoursMain = y.hoursMain → x.hoursGenset = y.hoursGenset →
      x.hoursFuelCell = y.hoursFuelCell → x.hoursPtiPto = y.hoursPtiPto → x = y := by
    intro x y a b c d e f g h i j k; cases x; cases y; simp_all
  apply ext <;> cases k <;> cases mech <;>
    simp [eval, addFig, hh, h1, h2, plusPart_append, minusPart_append, h3, h4] <;> ring

/-- **Fuel mass per kind is additive over consecutive parts**: the mass-flow series of a kind over
the whole series integrates to the sum of what its two parts integrate to. -/
theorem component_fuel_append (kind : Fuel.Kind) (r1 r2 d1 d2 : List Rat) (h : r1.length = d1.length) :
    fuelMass [(kind, r1 ++ r2)] (d1 ++ d2) = [(kind, dot r1 d1 + dot r2 d2)] ∧
    fuelMass [(kind, r1)] d1 = [(kind, dot r1 d1)] ∧ fuelMass [(kind, r2)] d2 = [(kind, dot r2 d2)] := by
  simp [fuelMass, dot_append r1 d1 r2 d2 h]

/-! ### Non-vacuity -/

example : (eval .propulsion false [100, 200, 300] [110, 220, 330] [60, 60, 120] [] 0 []).fig.propulsion
    = (eval .propulsion false [100] [110] [60] [] 0 []).fig.propulsion
      + (eval .propulsion false [200, 300] [220, 330] [60, 120] [] 0 []).fig.propulsion := by decide +kernel

end Feems.Props.C11
