/- Single Mathlib modules used by the proof files (never `import Mathlib`). -/
import Mathlib.Algebra.Group.Basic
import Mathlib.Algebra.Order.Field.Basic
import Mathlib.Algebra.Order.Field.Rat
import Mathlib.Algebra.BigOperators.Group.List.Basic
import Mathlib.Data.Rat.Defs
import Mathlib.Data.List.Basic
import Mathlib.Data.List.Perm.Basic
import Mathlib.Logic.Relation
import Mathlib.Tactic.Ring
import Mathlib.Tactic.Linarith
import Mathlib.Tactic.FieldSimp
import Mathlib.Tactic.Positivity
import Mathlib.Tactic.NormNum
import FeemsModel.Model.Basic

namespace Feems

theorem rabs_eq_abs (x : Rat) : rabs x = |x| := by
  unfold rabs; split
  · rw [abs_of_nonneg ‹_›]
  · rw [abs_of_neg (lt_of_not_ge ‹_›)]

theorem rabs_nonneg (x : Rat) : 0 ≤ rabs x := by rw [rabs_eq_abs]; exact abs_nonneg x

theorem clamp_bounds {lo hi : Rat} (h : lo ≤ hi) (x : Rat) : lo ≤ clamp lo hi x ∧ clamp lo hi x ≤ hi := by
  unfold clamp; split
  · exact ⟨le_refl _, h⟩
  · split
    · exact ⟨h, le_refl _⟩
    · constructor <;> linarith

theorem rsum_append (xs ys : List Rat) : rsum (xs ++ ys) = rsum xs + rsum ys := by
  induction xs with
  | nil => simp [rsum]
  | cons x xs ih => simp only [rsum, List.cons_append, List.foldr_cons] at *; rw [ih]; ring

@[simp] theorem rsum_nil : rsum [] = 0 := rfl
@[simp] theorem rsum_cons (x : Rat) (xs : List Rat) : rsum (x :: xs) = x + rsum xs := rfl

theorem rsum_eq_sum (xs : List Rat) : rsum xs = xs.sum := by
  induction xs with
  | nil => rfl
  | cons x xs ih => simp [ih]

end Feems
