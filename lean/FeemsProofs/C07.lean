/-
C07 — fuel mass flow follows the consumption and efficiency characteristics.
-/
import FeemsProofs.C06
import FeemsModel.Model.Engine

set_option linter.unusedSimpArgs false
set_option linter.unusedVariables false

namespace Feems.Props.C07
open Feems Feems.Comp Feems.Engine

/-- Engine: specific consumption at the current load times shaft power (g/kWh · kW → kg/s). -/
theorem engine (bsfc : Rat → Rat) (rated P : Rat) :
    engineFuel bsfc rated P = bsfc (rabs P / rated) * P / 3600000 := by
  unfold engineFuel load; ring

/-- Dual fuel: pilot fuel is a separate record with its own specific consumption. -/
theorem pilot (bpsfc : Rat → Rat) (rated P : Rat) :
    pilotFuel bpsfc rated P = bpsfc (rabs P / rated) * P / 3600000 := by
  unfold pilotFuel load; ring

/-- Zero power, zero fuel; non-negative consumption curve and power, non-negative fuel. -/
theorem zero (bsfc : Rat → Rat) (rated : Rat) : engineFuel bsfc rated 0 = 0 ∧ pilotFuel bsfc rated 0 = 0 := by
  unfold engineFuel pilotFuel; simp

theorem nonneg (bsfc : Rat → Rat) (rated P : Rat) (hb : ∀ x, 0 ≤ bsfc x) (hP : 0 ≤ P) :
    0 ≤ engineFuel bsfc rated P := by
  unfold engineFuel; have := hb (load rated P); positivity

/-- A single value is a constant curve: then fuel flow is linear in power. -/
theorem constant_curve (c rated P : Rat) : engineFuel (fun _ => c) rated P = c * P / 3600000 := by
  unfold engineFuel; ring

/-- Generating set: engine power = delivered electric power / generator efficiency at that load
(a rectifier is folded into the generator's characteristic, C06 `serial_*`). -/
theorem genset (ηgen inv : Rat → Rat) (rated P : Rat) (hP : 0 ≤ P) :
    gensetEnginePower ηgen inv rated P = P / effHat ηgen (rabs P / rated) ∧
    P ≤ gensetEnginePower ηgen inv rated P := by
  unfold gensetEnginePower inFromOut
  rw [if_pos hP]
  exact ⟨rfl, C06.fwd_supply_ge_delivery ηgen rated P hP⟩

/-- Geared main engine: engine power = shaft power / gearbox efficiency. -/
theorem geared (ηgb : Rat → Rat) (rated P : Rat) (hP : 0 ≤ P) :
    gearedEnginePower ηgb rated P * effHat ηgb (rabs P / rated) = P ∧ P ≤ gearedEnginePower ηgb rated P := by
  unfold gearedEnginePower
  have hpos := C06.effHat_pos ηgb (load rated P)
  have hle := (C06.clamp_bounds ηgb (load rated P)).2
  refine ⟨div_mul_cancel₀ _ hpos.ne', ?_⟩
  rw [le_div_iff₀ hpos]; nlinarith

/-- Either direction of power through the gearbox of a geared main engine: forward power is the formula above; power that flows
backwards (a PTI that delivers more than the shaft load) arrives at the engine no larger than it left the shaft - for every
characteristic and every interpolant of the inverse (C06). -/
theorem geared_bidirectional (ηgb inv : Rat → Rat) (rated P : Rat) :
    (0 ≤ P → gearedEnginePowerBi ηgb inv rated P = gearedEnginePower ηgb rated P) ∧
    (P < 0 → |gearedEnginePowerBi ηgb inv rated P| ≤ |P|) := by
  refine ⟨fun h => ?_, fun h => ?_⟩
  · simp [gearedEnginePowerBi, gearedEnginePower, inFromOut, fwd, h]
  · exact (C06.no_energy_created (η := ηgb) (inv := inv) (rated := rated)).2.1 P h

/-- As found (D136), 200 kW going into a 92.4 %-efficient gearbox from the shaft arrived at the engine as 216.5 kW. -/
theorem geared_reverse_legacy_creates_energy :
    |gearedEnginePowerReverseLegacy (fun _ => 924 / 1000) 1000 (-200)| > |(-200 : Rat)| := by
  unfold gearedEnginePowerReverseLegacy effHat; norm_num [load, rabs, clamp]

/-- As found (D35): a 4000 kW gearbox (90 % efficient up to a quarter of its load, 98 % above) behind a 2000 kW engine
delivering 1000 kW was read at load 1/2 instead of 1/4: the engine power came out 8 % too low. -/
theorem geared_legacy_wrong_load :
    let ηgb : Rat → Rat := fun x => if x ≤ 1 / 4 then 9 / 10 else 49 / 50
    gearedEnginePower ηgb 4000 1000 = 1000 / (9 / 10) ∧ gearedEnginePowerLegacy ηgb 2000 1000 = 1000 / (49 / 50) := by
  decide +kernel

/-- Fuel cell: fuel mass = (delivered power / efficiency) / lower heating value. -/
theorem fuel_cell (η inv : Rat → Rat) (rated lhv P : Rat) (hP : 0 ≤ P) :
    fuelCellFuel η inv rated lhv P = P / effHat η (rabs P / rated) / lhv / 1000000 := by
  unfold fuelCellFuel inFromOut; rw [if_pos hP]; rfl

/-- The number of modules scales the result linearly: with a constant cell efficiency `N` modules
at `1/N` of the power burn what one module would at the whole power. -/
theorem modules_linear (ηconv invConv invCell : Rat → Rat) (c ratedConv ratedCell lhv P : Rat)
    (N : Nat) (hN : 0 < N) (hP : 0 ≤ P) :
    fuelCellSystemFuel ηconv invConv (fun _ => c) invCell ratedConv ratedCell lhv N P =
      fuelCellFuel (fun _ => c) invCell ratedCell lhv (inFromOut ηconv invConv ratedConv P) := by
  unfold fuelCellSystemFuel fuelCellFuel
  have hin : 0 ≤ inFromOut ηconv invConv ratedConv P := by
    unfold inFromOut; rw [if_pos hP]; exact C06.fwd_nonneg ηconv ratedConv P hP
  have hN' : (0 : Rat) < N := by exact_mod_cast hN
  have hdiv : 0 ≤ inFromOut ηconv invConv ratedConv P / N := div_nonneg hin hN'.le
  unfold inFromOut at *
  rw [if_pos hdiv, if_pos hin]
  unfold fwd effHat
  field_simp

/-- … and in general the system burns `N` times what one module burns at its own share. -/
theorem modules (ηconv invConv ηcell invCell : Rat → Rat) (ratedConv ratedCell lhv : Rat) (N : Nat) (P : Rat) :
    fuelCellSystemFuel ηconv invConv ηcell invCell ratedConv ratedCell lhv N P =
      N * fuelCellFuel ηcell invCell ratedCell lhv (inFromOut ηconv invConv ratedConv P / N) := by
  unfold fuelCellSystemFuel; ring

/-- Combined gas/steam plant: fuel = (power / efficiency) / LHV; the gas- and steam-turbine
powers follow the split curve and add up to the plant's output. -/
theorem cogas_point (η ratio : Rat → Rat) (rated lhv P : Rat) :
    (cogas η ratio rated lhv P).fuel = P / effHat η (rabs P / rated) / lhv / 1000000 ∧
    (cogas η ratio rated lhv P).gas = ratio (P / rated) * P ∧
    (cogas η ratio rated lhv P).gas + (cogas η ratio rated lhv P).steam = P := by
  refine ⟨?_, rfl, ?_⟩
  · simp only [cogas, load]; ring
  · simp only [cogas]; ring

/-- **The turbine powers follow the given split curves.** Where the two curves add up to the plant's output at this load (as the
curves of a plant do), the gas turbine's power is the value of the gas-turbine curve and the steam turbine's that of the
steam-turbine curve - at the curve points and between them, whatever the interpolants `g`, `s` are. -/
theorem cogas_follows_split_curves (η g s fb : Rat → Rat) (rated lhv P : Rat)
    (hsum : g (P / rated) + s (P / rated) = P) (hP : P ≠ 0) :
    (cogas η (shareOf g s fb) rated lhv P).gas = g (P / rated) ∧
    (cogas η (shareOf g s fb) rated lhv P).steam = s (P / rated) := by
  have hne : g (P / rated) + s (P / rated) ≠ 0 := by rw [hsum]; exact hP
  have hg : (cogas η (shareOf g s fb) rated lhv P).gas = g (P / rated) := by
    simp only [cogas, shareOf, if_neg hne]
    rw [hsum]; field_simp
  refine ⟨hg, ?_⟩
  have h := (cogas_point η (shareOf g s fb) rated lhv P).2.2
  linarith

/-- As found, the *share* was interpolated between the points: with the straight power curves gas 400 → 475 kW,
steam 0 → 225 kW between 40 % and 70 % load of a 1000 kW plant, at 50 % load the gas turbine was given 446.4 kW where its
curve says 425 kW (PCHIP through the shares gave 434.2 kW: off the curve as well). -/
theorem legacy_share_off_curve :
    shareLegacyLinear (2 / 5) 1 (7 / 10) (475 / 700) (1 / 2) * 500 ≠ 425 ∧
    shareOf (fun l => 400 + (l - 2 / 5) * 250) (fun l => (l - 2 / 5) * 750) (fun _ => 1) (1 / 2) * 500 = 425 := by
  constructor
  · unfold shareLegacyLinear; norm_num
  · unfold shareOf; norm_num

/-- As found (D7) the gas-turbine figure was the share, not a power: at a 60 % share of
1000 kW it reported 0.6 instead of 600 kW. -/
theorem legacy_cogas_gas_is_ratio :
    cogasGasLegacy (fun _ => 3 / 5) 2000 1000 = 3 / 5 ∧ (cogas (fun _ => 1) (fun _ => 3 / 5) 2000 1 1000).gas = 600 := by
  constructor <;> decide +kernel

/-- A machine accrues running hours exactly over the intervals in which it delivers power. -/
theorem running_hours_nil (ds : List Rat) : runningHours [] ds = 0 := by cases ds <;> rfl

theorem running_hours_cons (p d : Rat) (ps ds : List Rat) :
    runningHours (p :: ps) (d :: ds) = (if p ≠ 0 then d / 3600 else 0) + runningHours ps ds := by
  simp only [runningHours]; split <;> simp

theorem running_hours_idle (ps ds : List Rat) (h : ∀ p ∈ ps, p = 0) : runningHours ps ds = 0 := by
  induction ps generalizing ds with
  | nil => exact running_hours_nil ds
  | cons p ps ih =>
    cases ds with
    | nil => rfl
    | cons d ds =>
      rw [running_hours_cons, ih ds (fun x hx => h x (List.mem_cons_of_mem _ hx))]
      simp [h p (by simp)]

theorem running_hours_always (ps ds : List Rat) (h : ∀ p ∈ ps, p ≠ 0) (hl : ps.length = ds.length) :
    runningHours ps ds = rsum ds / 3600 := by
  induction ps generalizing ds with
  | nil => cases ds with
    | nil => simp [runningHours]
    | cons d ds => cases hl
  | cons p ps ih =>
    cases ds with
    | nil => cases hl
    | cons d ds =>
      rw [running_hours_cons, ih ds (fun x hx => h x (List.mem_cons_of_mem _ hx)) (by simpa using hl)]
      simp [h p (by simp)]; ring

/-! ### Non-vacuity -/

example : engineFuel (fun x => if x ≤ 1/2 then 210 else 190) 1000 750 = 190 * 750 / 3600000 ∧
    (cogas (fun _ => 1/2) (fun _ => 3/5) 2000 (43/1000) 1000).steam = 400 := by
  constructor <;> decide +kernel

end Feems.Props.C07
