/-
Property theorems about FEEMS curves (`Feems.Pchip.curve`: a list of points as the code reads it —
one point is a constant, several are sorted by abscissa and handed to the shape-preserving cubic
interpolant).  Until this module "what the curve is between the points" rested on an oracle (scipy's
`PchipInterpolator`, "a primitive outside the model"); the interpolant is now inside the model, its
correspondence with scipy and with the curve functions of the repository is checked on every run
(`harness/props/curve_common.py`), and the statements below hold for every list of points.

They are stated once in `Feems.Pchip` and re-exported under the three properties that speak of curves:
C06 (efficiency characteristics), C07 (consumption and power-split characteristics), C09 (emission curves).
-/
import FeemsProofs.Lemmas.PchipLemmas
import FeemsModel.Model.Component
import FeemsModel.Model.Engine

set_option linter.unusedVariables false

namespace Feems.Pchip

theorem accepted_strict {xs : List Rat} (h : acceptedB xs = true) :
    2 ≤ xs.length ∧ StrictOn xs.length (fun i => xs.getD i 0) := by
  unfold acceptedB at h
  simp only [Bool.and_eq_true, decide_eq_true_eq, List.all_eq_true] at h
  obtain ⟨hl, ha⟩ := h
  refine ⟨hl, fun i hi => ?_⟩
  have hi0 : i < xs.length := by omega
  have hit : i < xs.tail.length := by simp; omega
  have hz : i < (xs.zip xs.tail).length := by simp; omega
  have mem := List.getElem_mem hz
  have := ha _ mem
  simp only [List.getElem_zip, List.getElem_tail] at this
  simp only [List.getD_eq_getElem?_getD, List.getElem?_eq_getElem hi0, List.getElem?_eq_getElem hi, Option.getD_some]
  exact this

/-- The sorted points, as the curve keeps them. -/
def sorted (pts : List (Rat × Rat)) : List (Rat × Rat) := pts.mergeSort (fun a b => decide (a.1 ≤ b.1))

/-- What the curve constructor accepts of several points: after sorting, abscissae strictly increasing
(no abscissa given twice). -/
def Accepted (pts : List (Rat × Rat)) : Prop := acceptedB ((sorted pts).map (·.1)) = true

theorem curve_eq {pts : List (Rat × Rat)} (h2 : 2 ≤ pts.length) (ha : Accepted pts) (t : Rat) :
    curve pts t = .ok (eval (sorted pts).length (fun i => ((sorted pts).map (·.1)).getD i 0)
      (fun i => ((sorted pts).map (·.2)).getD i 0) t) := by
  unfold Accepted sorted at ha
  match pts, h2 with
  | a :: b :: rest, _ =>
    simp only [curve, sorted, ha, if_true]

/-- **One point is a constant.** -/
theorem curve_single (p : Rat × Rat) (t : Rat) : curve [p] t = .ok p.2 := rfl

/-- **A curve goes through every point it was given**, in whatever order they were listed. -/
theorem curve_through_points {pts : List (Rat × Rat)} (h2 : 2 ≤ pts.length) (ha : Accepted pts)
    {p : Rat × Rat} (hp : p ∈ pts) : curve pts p.1 = .ok p.2 := by
  rw [curve_eq h2 ha]
  have hs : p ∈ sorted pts := by unfold sorted; exact List.mem_mergeSort.mpr hp
  obtain ⟨k, hk, e⟩ := List.getElem_of_mem hs
  obtain ⟨hl, st⟩ := accepted_strict ha
  simp only [List.length_map] at hl st
  have xk : ((sorted pts).map (·.1)).getD k 0 = p.1 := by
    simp [List.getD_eq_getElem?_getD, List.getElem?_eq_getElem hk, e]
  have yk : ((sorted pts).map (·.2)).getD k 0 = p.2 := by
    simp [List.getD_eq_getElem?_getD, List.getElem?_eq_getElem hk, e]
  have := eval_knot (fun i => ((sorted pts).map (·.2)).getD i 0) st hk hl
  simp only [xk, yk] at this
  rw [this]

/-- **No overshoot.** If every given value lies in `[lo, hi]`, the curve lies in `[lo, hi]` everywhere
between the smallest and the largest given abscissa. -/
theorem curve_within {pts : List (Rat × Rat)} (h2 : 2 ≤ pts.length) (ha : Accepted pts) {lo hi : Rat}
    (hy : ∀ p ∈ pts, lo ≤ p.2 ∧ p.2 ≤ hi) {t : Rat}
    (h0 : ((sorted pts).map (·.1)).getD 0 0 ≤ t) (h1 : t ≤ ((sorted pts).map (·.1)).getD ((sorted pts).length - 1) 0) :
    ∃ v, curve pts t = .ok v ∧ lo ≤ v ∧ v ≤ hi := by
  rw [curve_eq h2 ha]
  obtain ⟨hl, st⟩ := accepted_strict ha
  simp only [List.length_map] at hl st
  refine ⟨_, rfl, ?_⟩
  apply eval_bounds _ st hl _ h0 h1
  intro i hi'
  have : (sorted pts)[i] ∈ pts := by
    have := List.getElem_mem hi'
    unfold sorted at this ⊢; exact List.mem_mergeSort.mp this
  have := hy _ this
  simpa [List.getD_eq_getElem?_getD, List.getElem?_eq_getElem hi'] using this

theorem curve_ge2 {pts : List (Rat × Rat)} (h2 : 2 ≤ pts.length) (t : Rat) :
    curve pts t =
      if acceptedB ((sorted pts).map (·.1)) then
        .ok (eval (sorted pts).length (fun i => ((sorted pts).map (·.1)).getD i 0)
          (fun i => ((sorted pts).map (·.2)).getD i 0) t)
      else .error "reject:abscissae not strictly increasing" := by
  match pts, h2 with
  | a :: b :: rest, _ => rfl

/-- Sorting by abscissa forgets the order in which points with distinct abscissae were listed. -/
theorem sorted_perm {p q : List (Rat × Rat)} (h : p.Perm q) (hd : (p.map (·.1)).Nodup) : sorted p = sorted q := by
  unfold sorted
  have tr : ∀ a b c : Rat × Rat, decide (a.1 ≤ b.1) = true → decide (b.1 ≤ c.1) = true → decide (a.1 ≤ c.1) = true := by
    intro a b c h1 h2; simp only [decide_eq_true_eq] at *; exact le_trans h1 h2
  have tot : ∀ a b : Rat × Rat, (decide (a.1 ≤ b.1) || decide (b.1 ≤ a.1)) = true := by
    intro a b; simp only [Bool.or_eq_true, decide_eq_true_eq]; exact le_total _ _
  have s1 := List.pairwise_mergeSort tr tot p
  have s2 := List.pairwise_mergeSort tr tot q
  have pp : (p.mergeSort fun a b => decide (a.1 ≤ b.1)).Perm (q.mergeSort fun a b => decide (a.1 ≤ b.1)) :=
    (List.mergeSort_perm p _).trans (h.trans (List.mergeSort_perm q _).symm)
  refine List.Perm.eq_of_pairwise ?_ s1 s2 pp
  intro a b ha hb hab hba
  simp only [decide_eq_true_eq] at hab hba
  have e : a.1 = b.1 := le_antisymm hab hba
  have ha' : a ∈ p := List.mem_mergeSort.mp ha
  have hb' : b ∈ p := h.mem_iff.mpr (List.mem_mergeSort.mp hb)
  exact List.inj_on_of_nodup_map hd ha' hb' e

/-- **The order in which a table lists its points carries no meaning**: two listings of the same points
(no abscissa given twice) give the same curve — the same value, or the same refusal, at every abscissa. -/
theorem curve_order_free {p q : List (Rat × Rat)} (h : p.Perm q) (hd : (p.map (·.1)).Nodup) (t : Rat) :
    curve p t = curve q t := by
  have hl := h.length_eq
  by_cases h2 : 2 ≤ p.length
  · rw [curve_ge2 h2, curve_ge2 (hl ▸ h2), sorted_perm h hd]
  · match p, q, h, hl, h2 with
    | [], [], _, _, _ => rfl
    | [a], [b], h, _, _ =>
      have : a = b := by simpa using h
      rw [this]
    | _ :: _ :: _, _, _, _, h2 => exact absurd (by simp) h2

/-- A list of several points that is not `Accepted` is refused at every abscissa (scipy: "x must be strictly increasing"). -/
theorem curve_refused {pts : List (Rat × Rat)} (h2 : 2 ≤ pts.length) (h : ¬ Accepted pts) (t : Rat) :
    curve pts t = .error "reject:abscissae not strictly increasing" := by
  rw [curve_ge2 h2]
  unfold Accepted at h
  simp only [h]
  rfl

/-- What is accepted gives no abscissa twice. -/
theorem accepted_nodup {pts : List (Rat × Rat)} (ha : Accepted pts) : (pts.map (·.1)).Nodup := by
  obtain ⟨hl, st⟩ := accepted_strict ha
  have nd : ((sorted pts).map (·.1)).Nodup := by
    rw [List.nodup_iff_pairwise_ne, List.pairwise_iff_getElem]
    intro i j hi hj hij
    have := st.lt hij hj
    simp only [List.getD_eq_getElem?_getD, List.getElem?_eq_getElem hi, List.getElem?_eq_getElem hj, Option.getD_some] at this
    exact ne_of_lt this
  have p : ((sorted pts).map (·.1)).Perm (pts.map (·.1)) := (List.mergeSort_perm pts _).map _
  exact p.nodup_iff.mp nd

/-- **A point list with an abscissa given twice is never interpolated.** -/
theorem curve_rejects_repeated_abscissa {pts : List (Rat × Rat)} (h2 : 2 ≤ pts.length)
    (hd : ¬ (pts.map (·.1)).Nodup) (t : Rat) :
    curve pts t = .error "reject:abscissae not strictly increasing" :=
  curve_refused h2 (fun ha => hd (accepted_nodup ha)) t

/-- A non-trivial instance: the hypotheses are satisfiable and the statements say something (a
consumption curve with a 110 % point: strictly increasing abscissae, a minimum inside, and the value
at the last point).  `Accepted` on concrete lists goes through `List.mergeSort`, which the kernel does
not unfold; it is exercised by the driver on every run of the correspondence instead. -/
example : StrictOn 4 (fun i => [1/4, 1/2, 1, 11/10].getD i 0) ∧
    eval 4 (fun i => [1/4, 1/2, 1, 11/10].getD i 0) (fun i => [230, 200, 190, 206].getD i 0) (11/10) = 206 ∧
    eval 4 (fun i => [1/4, 1/2, 1, 11/10].getD i 0) (fun i => [230, 200, 190, 206].getD i 0) (3/4) ≤ 200 := by
  refine ⟨fun i hi => ?_, by decide +kernel, by decide +kernel⟩
  have : i = 0 ∨ i = 1 ∨ i = 2 := by omega
  rcases this with rfl | rfl | rfl <;> decide +kernel

end Feems.Pchip

namespace Feems.Props.C07
open Feems.Pchip
/-- C07: the consumption a machine reports at a load it was given a point for IS that point's value. -/
theorem curve_through_points {pts : List (Rat × Rat)} (h2 : 2 ≤ pts.length) (ha : Accepted pts)
    {p : Rat × Rat} (hp : p ∈ pts) : curve pts p.1 = .ok p.2 := Feems.Pchip.curve_through_points h2 ha hp
theorem curve_single (p : Rat × Rat) (t : Rat) : curve [p] t = .ok p.2 := rfl
/-- C07: the order in which the table of a characteristic lists its points carries no meaning. -/
theorem curve_order_free {p q : List (Rat × Rat)} (h : p.Perm q) (hd : (p.map (·.1)).Nodup) (t : Rat) :
    curve p t = curve q t := Feems.Pchip.curve_order_free h hd t
/-- C07: a table that gives one load twice is refused, never interpolated. -/
theorem curve_rejects_repeated_abscissa {pts : List (Rat × Rat)} (h2 : 2 ≤ pts.length)
    (hd : ¬ (pts.map (·.1)).Nodup) (t : Rat) :
    curve pts t = .error "reject:abscissae not strictly increasing" := Feems.Pchip.curve_rejects_repeated_abscissa h2 hd t
/-- C07: between the points the characteristic stays between the neighbouring given values. -/
theorem curve_between_points {n : Nat} {x : Nat → Rat} (y : Nat → Rat) (hs : StrictOn n x) (hn : 2 ≤ n) {t : Rat}
    (h0 : x 0 ≤ t) (h1 : t ≤ x (n - 1)) :
    ∃ k, k + 1 < n ∧ x k ≤ t ∧ t ≤ x (k + 1) ∧
      min (y k) (y (k + 1)) ≤ eval n x y t ∧ eval n x y t ≤ max (y k) (y (k + 1)) := eval_between y hs hn h0 h1
/-- C07: a power-split curve whose points never fall never falls (shape preservation). -/
theorem curve_monotone {n : Nat} {x : Nat → Rat} (y : Nat → Rat) (hs : StrictOn n x) (hn : 2 ≤ n)
    (hy : ∀ i, i + 1 < n → y i ≤ y (i + 1)) {a b : Rat} (h0 : x 0 ≤ a) (hab : a ≤ b) (h1 : b ≤ x (n - 1)) :
    eval n x y a ≤ eval n x y b := eval_monotone y hs hn hy h0 hab h1
theorem curve_two_points_linear (x y : Nat → Rat) (hx : x 0 < x 1) (t : Rat) :
    eval 2 x y t = y 0 + (y 1 - y 0) / (x 1 - x 0) * (t - x 0) := eval_two x y hx t

open Feems Feems.Comp Feems.Engine in
/-- C07 with the interpolant modelled: an engine whose consumption table gives values in `[lo, hi]` g/kWh burns,
at any load between its first and last table point, between `lo` and `hi` grams per kWh delivered — `nonneg`
without its hypothesis about the interpolant (which the extrapolated cubic does not meet: outside the table it
can go below zero, the reason the generators keep powers inside the curves). -/
theorem fuel_within_points {pts : List (Rat × Rat)} (h2 : 2 ≤ pts.length) (ha : Accepted pts) {lo hi : Rat}
    (hy : ∀ p ∈ pts, lo ≤ p.2 ∧ p.2 ≤ hi) {rated P : Rat} (hP : 0 ≤ P)
    (h0 : ((sorted pts).map (·.1)).getD 0 0 ≤ load rated P)
    (h1 : load rated P ≤ ((sorted pts).map (·.1)).getD ((sorted pts).length - 1) 0) :
    lo * P / 3600000 ≤ engineFuel (etaOfPoints pts) rated P ∧
      engineFuel (etaOfPoints pts) rated P ≤ hi * P / 3600000 := by
  obtain ⟨v, e, l, h⟩ := curve_within h2 ha hy h0 h1
  unfold engineFuel etaOfPoints
  rw [e]
  simp only []
  constructor
  · have := mul_le_mul_of_nonneg_right l hP; linarith
  · have := mul_le_mul_of_nonneg_right h hP; linarith

end Feems.Props.C07

namespace Feems.Props.C09
open Feems.Pchip
/-- C09: a curve-based emission at a load a point was given for is that point's value. -/
theorem emission_curve_through_points {pts : List (Rat × Rat)} (h2 : 2 ≤ pts.length) (ha : Accepted pts)
    {p : Rat × Rat} (hp : p ∈ pts) : curve pts p.1 = .ok p.2 := Feems.Pchip.curve_through_points h2 ha hp
theorem emission_curve_single (p : Rat × Rat) (t : Rat) : curve [p] t = .ok p.2 := rfl
/-- C09: an emission curve does not depend on the order in which its points are listed. -/
theorem emission_curve_order_free {p q : List (Rat × Rat)} (h : p.Perm q) (hd : (p.map (·.1)).Nodup) (t : Rat) :
    curve p t = curve q t := Feems.Pchip.curve_order_free h hd t
/-- C09: non-negative given values give a non-negative specific emission over the whole range of the points. -/
theorem emission_curve_nonneg {pts : List (Rat × Rat)} (h2 : 2 ≤ pts.length) (ha : Accepted pts)
    (hy : ∀ p ∈ pts, 0 ≤ p.2) {t : Rat}
    (h0 : ((sorted pts).map (·.1)).getD 0 0 ≤ t) (h1 : t ≤ ((sorted pts).map (·.1)).getD ((sorted pts).length - 1) 0) :
    ∃ v, curve pts t = .ok v ∧ 0 ≤ v := by
  -- an upper bound exists for any finite list; take the sum of the absolute values
  have hb : ∀ p ∈ pts, 0 ≤ p.2 ∧ p.2 ≤ (pts.map (fun q => |q.2|)).sum := by
    intro p hp
    refine ⟨hy p hp, ?_⟩
    have : |p.2| ≤ (pts.map (fun q => |q.2|)).sum :=
      List.single_le_sum (by intro x hx; obtain ⟨q, _, rfl⟩ := List.mem_map.mp hx; exact abs_nonneg _) _
        (List.mem_map.mpr ⟨p, hp, rfl⟩)
    exact le_trans (le_abs_self _) this
  obtain ⟨v, e, l, _⟩ := curve_within h2 ha hb h0 h1
  exact ⟨v, e, l⟩
end Feems.Props.C09

namespace Feems.Props.C06
open Feems.Pchip
/-- C06: an efficiency characteristic given by values in `[lo, hi]` stays in `[lo, hi]` between its
first and last point — the interpolant cannot create an efficiency above the largest given one. -/
theorem efficiency_curve_within {pts : List (Rat × Rat)} (h2 : 2 ≤ pts.length) (ha : Accepted pts) {lo hi : Rat}
    (hy : ∀ p ∈ pts, lo ≤ p.2 ∧ p.2 ≤ hi) {t : Rat}
    (h0 : ((sorted pts).map (·.1)).getD 0 0 ≤ t) (h1 : t ≤ ((sorted pts).map (·.1)).getD ((sorted pts).length - 1) 0) :
    ∃ v, curve pts t = .ok v ∧ lo ≤ v ∧ v ≤ hi := curve_within h2 ha hy h0 h1
theorem efficiency_curve_through_points {pts : List (Rat × Rat)} (h2 : 2 ≤ pts.length) (ha : Accepted pts)
    {p : Rat × Rat} (hp : p ∈ pts) : curve pts p.1 = .ok p.2 := Feems.Pchip.curve_through_points h2 ha hp

/-! #### The interpolated inverse, computed by the model (`Comp.invTable`)

`interp_inverse_partial` (C06.lean) needed a *contract* about the interpolant — it passes through the
samples and is monotone between them — which was an assumption about scipy.  With the interpolant inside
the model the contract is a theorem: the three statements below have no hypothesis about the interpolant
at all, only the constructor's own test (`tableMonotoneB`: the 200 samples of the forward map rise). -/
open Feems.Comp

theorem table_strict {η : Rat → Rat} {rated : Rat} (h : tableMonotoneB η rated = true) :
    StrictOn 200 (knotIn η rated) := by
  intro i hi
  unfold tableMonotoneB at h
  simp only [List.all_eq_true, List.mem_range, decide_eq_true_eq] at h
  exact h i (by omega)

theorem knotOut_rising {rated : Rat} (hr : 0 < rated) (i : Nat) : knotOut rated i ≤ knotOut rated (i + 1) := by
  unfold knotOut; push_cast; linarith [div_pos hr (by norm_num : (0:Rat) < 100)]

/-- **At every sample the interpolated inverse is exact**: handing the inverse the supply side of sample
`k` returns the delivered power of sample `k`. -/
theorem inverse_exact_at_samples {η : Rat → Rat} {rated : Rat} (h : tableMonotoneB η rated = true)
    {k : Nat} (hk : k < 200) : invTable η rated (knotIn η rated k) = knotOut rated k :=
  eval_knot (knotOut rated) (table_strict h) hk (by norm_num)

/-- **The interpolated inverse never falls** over the range of the table: more supplied, not less delivered. -/
theorem inverse_monotone {η : Rat → Rat} {rated : Rat} (hr : 0 < rated) (h : tableMonotoneB η rated = true)
    {a b : Rat} (h0 : knotIn η rated 0 ≤ a) (hab : a ≤ b) (h1 : b ≤ knotIn η rated 199) :
    invTable η rated a ≤ invTable η rated b :=
  eval_monotone (knotOut rated) (table_strict h) (by norm_num) (fun i _ => knotOut_rising hr i) h0 hab h1

/-- **The interpolated inverse is within one sample spacing (1 % of the rating) of the exact inverse**, over
the whole table, for every characteristic the constructor accepts — `interp_inverse_partial` with the
knot contract discharged.  `e` is the exact inverse of the forward map (it takes the supply side of every
sample to its delivered power and never falls).  The property's 0.5 % is not reached by this bound; it
stays validated per case (and D16 / D118 are where it fails). -/
theorem interp_inverse_modelled {η : Rat → Rat} {rated : Rat} (hr : 0 < rated) (h : tableMonotoneB η rated = true)
    (e : Rat → Rat) (heknot : ∀ i, i < 200 → e (knotIn η rated i) = knotOut rated i)
    (hemono : ∀ a b, a ≤ b → e a ≤ e b) {v : Rat}
    (h0 : knotIn η rated 0 ≤ v) (h1 : v ≤ knotIn η rated 199) :
    |invTable η rated v - e v| ≤ rated / 100 := by
  obtain ⟨k, hk, l, r, lo, hi⟩ := eval_between (knotOut rated) (table_strict h) (by norm_num) h0 h1
  have rise := knotOut_rising hr k
  rw [min_eq_left rise] at lo; rw [max_eq_right rise] at hi
  have e1 := hemono _ _ l; have e2 := hemono _ _ r
  rw [heknot k (by omega)] at e1; rw [heknot (k + 1) hk] at e2
  have sp : knotOut rated (k + 1) - knotOut rated k = rated / 100 := by unfold knotOut; push_cast; ring
  unfold invTable
  rw [abs_le]; constructor <;> linarith

/-- The hypotheses are satisfiable: a 100 kW component with a constant 90 % passes the constructor's test, and
its interpolated inverse returns 45 kW for the 50 kW that sample 145 draws. -/
example : tableMonotoneB (fun _ => 9 / 10) 100 = true ∧ knotIn (fun _ => 9 / 10) 100 145 = 50 ∧
    invTable (fun _ => 9 / 10) 100 50 = 45 := by
  refine ⟨by decide +kernel, by decide +kernel, by decide +kernel⟩

end Feems.Props.C06
