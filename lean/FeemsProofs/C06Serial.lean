/-
C06, continued — the characteristic of a serial train *between* its eleven sample points, with the
interpolant inside the model (`Comp.serialEta`): the cubic through products that lie in (0, 1] stays in
(0, 1] over the whole load range, so the upper side of the clamp never acts on a train and the train never
"gains" efficiency between its samples.
-/
import FeemsProofs.C06
import FeemsProofs.CurveProps

namespace Feems.Props.C06
open Feems Feems.Comp Feems.Pchip

theorem serialPoints_abscissae (stages : List Stage) :
    (serialPoints stages).map (·.1) = [0, 1/10, 2/10, 3/10, 4/10, 5/10, 6/10, 7/10, 8/10, 9/10, 10/10] := by
  simp [serialPoints, List.range, List.range.loop]

theorem serialPoints_sorted (stages : List Stage) : sorted (serialPoints stages) = serialPoints stages := by
  unfold sorted
  apply List.mergeSort_of_pairwise
  unfold serialPoints
  rw [List.pairwise_map]
  refine List.Pairwise.imp ?_ List.pairwise_lt_range
  intro a b hab
  simp only [decide_eq_true_eq]
  have : (a : Rat) ≤ (b : Rat) := by exact_mod_cast hab.le
  linarith

theorem serialPoints_accepted (stages : List Stage) : Accepted (serialPoints stages) := by
  unfold Accepted
  rw [serialPoints_sorted, serialPoints_abscissae]
  decide +kernel

/-- **Between its sample points a train's raw characteristic stays in (0, 1]** — for any stages, any
characteristics of the stages, any ratings. -/
theorem serial_curve_bounds (stages : List Stage) {x : Rat} (h0 : 0 ≤ x) (h1 : x ≤ 1) :
    ∃ v, curve (serialPoints stages) x = .ok v ∧ 0 < v ∧ v ≤ 1 := by
  have hlen : (serialPoints stages).length = 11 := by simp [serialPoints]
  have h2 : 2 ≤ (serialPoints stages).length := by omega
  have ha := serialPoints_accepted stages
  rw [curve_eq h2 ha]
  refine ⟨_, rfl, ?_⟩
  obtain ⟨hl, st⟩ := accepted_strict ha
  simp only [List.length_map] at hl st
  have hx0 : ((sorted (serialPoints stages)).map (·.1)).getD 0 0 ≤ x := by
    rw [serialPoints_sorted, serialPoints_abscissae]; simpa using h0
  have hx1 : x ≤ ((sorted (serialPoints stages)).map (·.1)).getD ((sorted (serialPoints stages)).length - 1) 0 := by
    rw [serialPoints_sorted, serialPoints_abscissae, hlen]; simpa using h1
  have ys : ∀ i, i < (sorted (serialPoints stages)).length →
      0 < ((sorted (serialPoints stages)).map (·.2)).getD i 0 ∧ ((sorted (serialPoints stages)).map (·.2)).getD i 0 ≤ 1 := by
    intro i hi
    rw [serialPoints_sorted] at hi ⊢
    have hm : (serialPoints stages)[i] ∈ serialPoints stages := List.getElem_mem hi
    have e : ((serialPoints stages).map (·.2)).getD i 0 = ((serialPoints stages)[i]).2 := by
      simp [List.getD_eq_getElem?_getD, List.getElem?_eq_getElem hi]
    rw [e]
    generalize (serialPoints stages)[i] = p at hm ⊢
    unfold serialPoints at hm
    obtain ⟨k, _, rfl⟩ := List.mem_map.mp hm
    exact serial_eff_bounds stages _
  obtain ⟨k, hk, _, _, lo, hi⟩ := eval_between (fun i => ((sorted (serialPoints stages)).map (·.2)).getD i 0) st hl hx0 hx1
  have y0 := ys k (by omega); have y1 := ys (k + 1) hk
  exact ⟨lt_of_lt_of_le (lt_min y0.1 y1.1) lo, le_trans hi (max_le y0.2 y1.2)⟩

/-- The train's efficiency in use is its raw characteristic wherever that is at least 1 % — the upper side
of the clamp never acts — and it lies in [1 %, 100 %]. -/
theorem serialEta_bounds (stages : List Stage) {x : Rat} (h0 : 0 ≤ x) (h1 : x ≤ 1) :
    1 / 100 ≤ serialEta stages x ∧ serialEta stages x ≤ 1 ∧
      ∃ v, curve (serialPoints stages) x = .ok v ∧ (1 / 100 ≤ v → serialEta stages x = v) := by
  obtain ⟨v, e, p, l⟩ := serial_curve_bounds stages h0 h1
  have cb := Feems.clamp_bounds (lo := 1 / 100) (hi := 1) (by norm_num) (etaOfPoints (serialPoints stages) x)
  refine ⟨cb.1, cb.2, v, e, fun hv => ?_⟩
  unfold serialEta effHat etaOfPoints
  rw [e]
  unfold clamp
  rw [if_neg (not_lt.mpr hv), if_neg (not_lt.mpr l)]

end Feems.Props.C06
