/-
C03 — load sharing: equal load fraction, exact fixed shares, off means zero.
-/
import FeemsProofs.C01

set_option linter.unusedSimpArgs false
set_option linter.unusedVariables false

namespace Feems.Props.C03
open Feems Feems.Electric

/-- Every running equal-sharing source of a bus is loaded to the bus's load fraction … -/
theorem equal_fraction_source (lam : Rat) (s : Src) (h0 : s.share = 0) (hs : s.status = true)
    (hr : s.rated ≠ 0) : srcOut lam s / s.rated = lam := by
  unfold srcOut
  rw [if_pos ⟨h0, hs⟩, hs]
  simp only [b2r, if_true, mul_one]
  field_simp

/-- … and so is every running storage / PTI/PTO unit in balancing mode (it *supplies* that
fraction: its input is the negative of it). -/
theorem equal_fraction_balancer (lam : Rat) (b : Bal) (h0 : b.mode = 0) (hs : b.status = true)
    (hr : b.rated ≠ 0) : -balIn lam b / b.rated = lam := by
  unfold balIn
  rw [if_pos h0, hs]
  simp only [b2r, if_true, mul_one]
  field_simp

/-- All running equal-sharing units of one bus therefore have the same fraction, because all
members of a bus are given the load fraction of that bus (`C01.busOf_eq`). -/
theorem same_fraction (lab : Nat → Nat) (plant : List Swb) (w v : Swb) (h : lab v.id = lab w.id)
    (s s' : Src) (hs0 : s.share = 0) (hs : s.status = true) (hr : s.rated ≠ 0)
    (hs0' : s'.share = 0) (hs' : s'.status = true) (hr' : s'.rated ≠ 0) :
    srcOut (loadFrac (busOf lab plant w)) s / s.rated =
      srcOut (loadFrac (busOf lab plant v)) s' / s'.rated := by
  rw [C01.busOf_eq lab plant w v h, equal_fraction_source _ s hs0 hs hr,
    equal_fraction_source _ s' hs0' hs' hr']

/-- A running source with a fixed share delivers exactly that fraction of its rated power. -/
theorem fixed_share (lam : Rat) (s : Src) (hs : s.status = true) (h : s.share ≠ 0) :
    srcOut lam s = s.share * s.rated := by
  unfold srcOut
  rw [if_neg (fun hc => h hc.1), hs]
  simp only [b2r, if_true, mul_one]; ring

/-- A source that is switched off delivers nothing (whatever its sharing setting) … -/
theorem off_source (lam : Rat) (s : Src) (hs : s.status = false) : srcOut lam s = 0 := by
  unfold srcOut
  rw [hs]; simp [b2r]

/-- … and a balancing unit that is switched off takes / gives nothing. -/
theorem off_balancer (lam : Rat) (b : Bal) (h0 : b.mode = 0) (hs : b.status = false) :
    balIn lam b = 0 := by
  unfold balIn
  rw [if_pos h0, hs]; simp [b2r]

/-- A unit in given-power mode keeps its given power. -/
theorem given_power (lam : Rat) (b : Bal) (h : b.mode ≠ 0) : balIn lam b = b.given := by
  unfold balIn; rw [if_neg h]

/-- **Uniqueness.** The three rules plus the power balance determine the solution: any common
fraction `mu` for which the bus balances is the load fraction computed by the model (buses with
balancing capacity). -/
theorem unique (g : List Swb) (hok : ∀ w ∈ g, SwbOK w) (hcap : busCap g ≠ 0) (mu : Rat)
    (hbal : C01.delivered mu g = C01.drawn mu g) : mu = loadFrac g := by
  have h := C01.delivered_sub_drawn mu g
  rw [sum_imbalance _ g hok, hbal, sub_self] at h
  have hmu : mu * busCap g = busLoad g := by linarith
  unfold loadFrac
  by_cases h0 : busLoad g = 0
  · rw [if_pos h0]
    rw [h0] at hmu
    rcases mul_eq_zero.mp hmu with h | h
    · exact h
    · exact absurd h hcap
  · rw [if_neg h0, ← hmu, mul_div_cancel_right₀ _ hcap]

/-! ### Non-vacuity: two buses with different load fractions -/

example :
    let lab := Bus.group [⟨1, 2, true⟩, ⟨2, 3, false⟩]
    loadFrac (busOf lab C01.exPlant C01.exPlant[0]) = 850 / 2200 ∧
    loadFrac (busOf lab C01.exPlant C01.exPlant[2]) = 150 / 600 := by
  constructor <;> decide +kernel

end Feems.Props.C03
