/-
C08 — greenhouse-gas emissions = sum over fuels of mass × pathway factor.
The table facts are about the module *generated from the source on every run*
(`Generated/FuelTables.lean`): an edited table cell or mapping re-elaborates these proofs.
-/
import FeemsProofs.Prelude
import FeemsModel.Model.Ghg

set_option linter.unusedSimpArgs false
set_option linter.unusedVariables false

namespace Feems.Props.C08
open Feems Feems.Fuel Feems.Ghg Feems.Generated.FuelTables

/-! ### The formulas -/

/-- Tank-to-wake = (1 − slip) × (CO2 + 25 × CH4 + 298 × N2O) + 25 × slip (slip in percent). -/
theorem ttw_formula (r : Ttw) :
    r.factor = (1 - r.slip / 100) * (r.co2 + 25 * r.ch4 + 298 * r.n2o) + 25 * (r.slip / 100) := by
  unfold Ttw.factor Fuel.gwpCH4 Fuel.gwpN2O; ring

/-- The global-warming potentials of the model are those of the source. -/
theorem gwp_match : Fuel.gwpCH4 = Generated.FuelTables.gwpCH4 ∧ Fuel.gwpN2O = Generated.FuelTables.gwpN2O ∧
    Generated.FuelTables.gwpCO2 = 1 := by
  refine ⟨?_, ?_, ?_⟩ <;> decide +kernel

/-- Well-to-tank = upstream factor × lower heating value; well-to-wake = their sum;
"without slip" = the tabulated CO2 factor only. -/
theorem factors_formula (f : Factors) :
    f.ghg.wtt = f.wttPerMJ * f.lhv ∧ f.ghg.ttw = f.row.factor ∧ f.ghg.wtw = f.row.factor + f.wttPerMJ * f.lhv ∧
    f.ghg.ttwNoSlip = f.row.co2 := ⟨rfl, rfl, rfl, rfl⟩

/-- Σ over fuels of mass × factor, component-wise. -/
def weighted (fs : List (Factors × Rat)) : Ghg :=
  ⟨rsum (fs.map fun e => e.1.ghg.ttw * e.2), rsum (fs.map fun e => e.1.ghg.wtt * e.2),
   rsum (fs.map fun e => e.1.ghg.ttwNoSlip * e.2)⟩

theorem mixFactor_eq (fs : List (Factors × Rat)) : mixFactor fs = weighted fs := by
  unfold mixFactor
  have : ∀ acc : Ghg, fs.foldl (fun acc e => acc.add (e.1.ghg.smul e.2)) acc = acc.add (weighted fs) := by
    induction fs with
    | nil => intro acc; simp [weighted, Ghg.add]
    | cons e fs ih =>
      intro acc
      rw [List.foldl_cons, ih]
      simp only [weighted, Ghg.add, Ghg.smul, List.map_cons, rsum_cons]
      congr 1 <;> ring
  rw [this]; simp [Ghg.add, weighted]

/-- **Total.** Reported emissions = Σ mass × factor of that pathway (tank-to-wake, well-to-tank
and the no-slip figure alike), and zero when nothing was burned. -/
theorem total (fs : List (Factors × Rat)) (h : rsum (fs.map (·.2)) ≠ 0) :
    totalEmissions fs = weighted fs := by
  unfold totalEmissions
  simp only [h, if_false]
  rw [mixFactor_eq]
  generalize rsum (fs.map (·.2)) = tot at h
  have key : ∀ (g : Factors × Rat → Rat),
      rsum ((fs.map fun e => (e.1, e.2 / tot)).map fun e => g (e.1, 1) * e.2) * tot = rsum (fs.map fun e => g (e.1, 1) * e.2) := by
    intro g
    induction fs with
    | nil => simp
    | cons e fs ih =>
      simp only [List.map_cons, rsum_cons, add_mul, ih]
      congr 1; field_simp
  simp only [weighted, Ghg.smul]
  congr 1
  · exact key (fun e => e.1.ghg.ttw)
  · exact key (fun e => e.1.ghg.wtt)
  · exact key (fun e => e.1.ghg.ttwNoSlip)

theorem total_zero (fs : List (Factors × Rat)) (h : rsum (fs.map (·.2)) = 0) :
    totalEmissions fs = {} := by
  unfold totalEmissions; simp [h]

/-- Totals from time series are the scalar totals step by step: the record of step `t` is the
scalar record of that step (element-wise numpy arithmetic), so nothing more is needed than
`total` at every step. -/
theorem series_eq_scalar (steps : List (List (Factors × Rat))) :
    steps.map totalEmissions = steps.map fun fs => if rsum (fs.map (·.2)) = 0 then {} else weighted fs := by
  apply List.map_congr_left
  intro fs _
  by_cases h : rsum (fs.map (·.2)) = 0
  · rw [if_pos h]; exact total_zero fs h
  · rw [if_neg h]; exact total fs h

/-! ### The mix rule -/

/-- In a gas-engine class every fuel other than natural gas uses the generic engine factors … -/
theorem gas_only (cls : Nat) (k : Kind) (u : Option UserFactors) (hc : cls ∈ lngClasses)
    (hk : k.type ≠ naturalGas) (hs : k.spec ≠ specIMO) : resolve cls k u = resolve iceClass k u := by
  have h1 : effectiveClass cls k.type = iceClass := by
    unfold effectiveClass
    have : lngClasses.contains cls = true := List.contains_iff_mem.mpr hc
    rw [this]
    have hk' : (k.type != naturalGas) = true := by simpa using hk
    rw [hk']; rfl
  have h2 : effectiveClass iceClass k.type = iceClass := by
    unfold effectiveClass; split <;> rfl
  have hc0 : cls ≠ 0 := by intro h; subst h; revert hc; decide
  have hi0 : iceClass ≠ 0 := by decide
  unfold resolve
  simp only [hs, if_false, hc0, hi0, h1, h2]

/-- … while natural gas keeps the factors (and the slip) of the engine class. -/
theorem gas_keeps_class (cls : Nat) : effectiveClass cls naturalGas = cls := by
  unfold effectiveClass; simp

/-- Under IMO the class plays no role. -/
theorem imo_ignores_class (c c' : Nat) (k : Kind) (u : Option UserFactors) (hs : k.spec = specIMO) :
    resolve c k u = resolve c' k u := by
  unfold resolve; simp [hs]

/-- A user's record that names no consumer class holds for every class that is asked for … -/
theorem user_classless_serves_every_class (cls : Nat) (k : Kind) (t : Ttw) (lhv wtt : Rat) (hs : k.spec = specUSER) :
    resolve cls k (some ⟨lhv, wtt, [(none, t)]⟩) = some ⟨t, lhv, wtt⟩ := by
  have h1 : specUSER ≠ specIMO := by decide
  have h2 : specUSER ≠ specEU := by decide
  unfold resolve
  by_cases hc : cls = 0 <;> simp [hs, h1, h2, hc, List.find?, Option.orElse]

/-- … and a row of the class asked for goes before it. -/
theorem user_class_row_first (cls : Nat) (k : Kind) (t t' : Ttw) (lhv wtt : Rat) (hs : k.spec = specUSER) (hc : cls ≠ 0) :
    resolve cls k (some ⟨lhv, wtt, [(none, t), (some (effectiveClass cls k.type), t')]⟩) = some ⟨t', lhv, wtt⟩ := by
  have h1 : specUSER ≠ specIMO := by decide
  have h2 : specUSER ≠ specEU := by decide
  unfold resolve
  simp [hs, h1, h2, hc, List.find?, Option.orElse]

/-- As found, the class-less record was not found once a class was given (the code raised). -/
theorem user_classless_legacy_refused (cls : Nat) (k : Kind) (t : Ttw) (lhv wtt : Rat) (hc : cls ≠ 0) :
    resolveUserLegacy cls k ⟨lhv, wtt, [(none, t)]⟩ = none := by
  unfold resolveUserLegacy
  simp [hc, List.find?]

/-! ### Facts of the packaged tables (kernel-evaluated on the generated module) -/

/-- Under IMO only the tabulated CO2 factor applies: CH4, N2O and slip are 0 in every row. -/
theorem imo_co2_only : ∀ r ∈ imoRows, r.ch4 = some 0 ∧ r.n2o = some 0 ∧ r.slip = some 0 := by
  decide +kernel

/-- The methane slip of natural gas depends on the engine class only, not on the origin of the gas. -/
theorem slip_by_class : ∀ r ∈ euRows, ∀ r' ∈ euRows,
    r.fuel = naturalGas → r'.fuel = naturalGas → r.cls = r'.cls → r.slip = r'.slip := by
  decide +kernel

/-- Every origin offering natural gas has exactly one row for each gas-engine class and for fuel
cells. -/
theorem gas_classes_complete : ∀ o ∈ mappedOrigins, (rowsFor euRows o naturalGas ≠ [] →
    ∀ c ∈ lngClasses ++ [fuelCellClass], ((rowsFor euRows o naturalGas).filter fun r => r.cls = c).length = 1) := by
  decide +kernel

/-- (fuel, origin, class) is a key of the FuelEU table; (fuel, origin) of the IMO table. -/
theorem rows_unique : (euRows.map fun r => (r.fuel, r.origin, r.cls)).Nodup ∧
    (imoRows.map fun r => (r.fuel, r.origin)).Nodup := by
  constructor <;> decide +kernel

/-- The rows with an empty factor cell are exactly the two RFNBO LPG rows (for which the lookup
refuses — D17); every other reachable row carries LCV, upstream factor, the three Cf and the slip. -/
theorem incomplete_rows : ((euRows ++ imoRows).filter fun r => !rowComplete r).map (fun r => (r.fuel, r.origin, r.cls))
    = [(6, 3, 1), (5, 3, 1)] := by
  decide +kernel

/-- Whatever the lookup returns is complete. -/
theorem prescribed_complete (tbl : List Row) (o f : Nat) (rows : List Row) (lhv wtt : Rat)
    (h : prescribed tbl o f = some (rows, lhv, wtt)) : ∀ r ∈ rows, rowComplete r = true := by
  unfold prescribed at h
  split at h
  · cases h
  · split at h
    · rename_i r rest _ hall
      injection h with h; injection h with h1 _
      subst h1
      exact List.all_eq_true.mp hall
    · cases h

/-! ### Non-vacuity: a 9 : 1 gas / diesel mix in a medium-speed Otto engine (FuelEU) -/

example : (recordEmissions 2 [(⟨2, 1, 1⟩, 9), (⟨0, 1, 1⟩, 1)] none).isSome = true := by decide +kernel

end Feems.Props.C08
