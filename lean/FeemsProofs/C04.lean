/-
C04 — shaft-line power balance, equal engine loading, full-PTI mode.
-/
import FeemsProofs.Prelude
import FeemsModel.Model.ShaftBalance

set_option linter.unusedSimpArgs false
set_option linter.unusedVariables false

namespace Feems.Props.C04
open Feems Feems.Shaft

theorem rsum_engOut (f : Rat) (es : List Eng) :
    rsum (es.map (engOut f)) = f * rsum (es.map fun e => e.rated * b2r e.status) := by
  induction es with
  | nil => simp
  | cons e es ih => simp only [List.map_cons, rsum_cons, ih, engOut]; ring

/-- **Balance.** Engines + PTI/PTO shaft power = mechanical loads, on every line and step where
running engines exist wherever engine power is needed. -/
theorem balance (l : Line) (h : l.isFull = false → l.load - l.ptiOut ≠ 0 → 0 < l.avail) :
    rsum (l.balance.engineOut) + l.balance.ptiOut = l.load := by
  simp only [Line.balance]
  rw [rsum_engOut]
  unfold Line.frac
  by_cases hf : l.isFull = true
  · rw [if_pos hf]
    -- full PTI: the PTI carries the whole load
    have : l.ptiOut = l.load := by
      unfold Line.ptiOut Line.isFull at *
      cases hp : l.pti with
      | none => rw [hp] at hf; cases hf
      | some p => rw [hp] at hf; simp only at hf ⊢; rw [if_pos hf]
    rw [this]; ring
  · have hf' : l.isFull = false := by simpa using hf
    rw [if_neg hf]
    by_cases h0 : l.load - l.ptiOut = 0
    · have : l.ptiOut = l.load := by linarith
      split <;> simp [h0, this]
    · have hav := h hf' h0
      rw [if_pos hav]
      have : (l.load - l.ptiOut) / l.avail * l.avail = l.load - l.ptiOut := div_mul_cancel₀ _ hav.ne'
      unfold Line.avail at *
      linarith

/-- Running engines are loaded to the same fraction of their rated power … -/
theorem equal_fraction (l : Line) (e : Eng) (hs : e.status = true) (hr : e.rated ≠ 0) :
    engOut l.frac e / e.rated = l.frac := by
  unfold engOut; rw [hs]; simp only [b2r, if_true, mul_one]; field_simp

/-- … stopped engines deliver nothing … -/
theorem off (f : Rat) (e : Eng) (hs : e.status = false) : engOut f e = 0 := by
  unfold engOut; rw [hs]; simp [b2r]

/-- … and in full-PTI mode the PTI alone carries the whole shaft load: every engine at zero. -/
theorem full_pti (l : Line) (hf : l.isFull = true) :
    l.balance.ptiOut = l.load ∧ ∀ x ∈ l.balance.engineOut, x = 0 := by
  constructor
  · simp only [Line.balance]
    unfold Line.ptiOut Line.isFull at *
    cases hp : l.pti with
    | none => rw [hp] at hf; cases hf
    | some p => rw [hp] at hf; simp only at hf ⊢; rw [if_pos hf]
  · intro x hx
    simp only [Line.balance, List.mem_map] at hx
    obtain ⟨e, _, rfl⟩ := hx
    unfold Line.frac engOut
    rw [if_pos hf]; ring

/-- A line without PTI/PTO is the case "PTI/PTO power 0, never full". -/
theorem no_pti (l : Line) (h : l.pti = none) : l.ptiOut = 0 ∧ l.isFull = false := by
  unfold Line.ptiOut Line.isFull; rw [h]; exact ⟨rfl, rfl⟩

/-- Shaft lines do not influence each other: the result of a line in a system is the result of
that line alone. -/
theorem lines_independent (pre suf : List Line) (l : Line) :
    Shaft.balance (pre ++ l :: suf) = Shaft.balance pre ++ l.balance :: Shaft.balance suf := by
  simp [Shaft.balance]

/-- An engine that ends up delivering nothing is reported as stopped; one that delivers keeps its
status. -/
theorem status_after (l : Line) (e : Eng) :
    (e.status && (engOut l.frac e != 0)) = true ↔ e.status = true ∧ engOut l.frac e ≠ 0 := by
  simp

/-- Without available engine power the fraction is 0 (the code's choice; the balance then fails
by exactly the uncovered engine power). -/
theorem no_engine_power (l : Line) (hf : l.isFull = false) (ha : ¬ 0 < l.avail) :
    rsum (l.balance.engineOut) + l.balance.ptiOut = l.load - (l.load - l.ptiOut) := by
  simp only [Line.balance]
  rw [rsum_engOut]
  unfold Line.frac
  rw [hf]; simp only [Bool.false_eq_true, if_false, if_neg ha]; ring

/-! ### Non-vacuity: two lines, one with PTO (negative shaft power) and a stopped engine -/

def exLine1 : Line := ⟨1, [⟨2000, true⟩, ⟨1000, false⟩], [1200, 300], some ⟨-200, false⟩⟩
def exLine2 : Line := ⟨2, [⟨1500, true⟩], [900], some ⟨0, true⟩⟩

example : (exLine1.isFull = false → exLine1.load - exLine1.ptiOut ≠ 0 → 0 < exLine1.avail) ∧
    exLine1.frac = 1700 / 2000 ∧ exLine2.isFull = true ∧ exLine2.balance.ptiOut = 900 := by
  refine ⟨fun _ _ => by decide +kernel, by decide +kernel, rfl, by decide +kernel⟩

end Feems.Props.C04
