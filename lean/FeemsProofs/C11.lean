/-
C11 — results are additive over time, order-free and linear in interval length.
Every extensive figure of a result is an interval-weighted sum `Σ_t rate(step_t) · dt_t` of a
per-step rate (power balance, run points and emission rates are computed step by step: C01, C04,
C07-C09), or a count of the same form (running hours).  The theorems are about such sums for an
arbitrary per-step rate; "the implementation's result really is such a sum" is what the
correspondence (split / permute / scale runs on whole plants) checks.
-/
import FeemsProofs.C17
import FeemsModel.Model.Engine

set_option linter.unusedSimpArgs false
set_option linter.unusedVariables false

namespace Feems.Props.C11
open Feems Feems.Integrate Feems.Engine Feems.Props.C17

variable {Step : Type}

/-- An extensive figure over a series of steps: `Σ rate(step) · dt(step)`. -/
def total (rate : Step → Rat) (dt : Step → Rat) (steps : List Step) : Rat :=
  dot (steps.map rate) (steps.map dt)

theorem total_eq_sum (rate dt : Step → Rat) (steps : List Step) :
    total rate dt steps = (steps.map fun s => rate s * dt s).sum := by
  unfold total
  induction steps with
  | nil => simp [dot_nil_left]
  | cons s steps ih => simp [ih]

/-- **Additive.** The figure over a sequence is the sum of the figures over any split into
consecutive parts. -/
theorem append (rate dt : Step → Rat) (xs ys : List Step) :
    total rate dt (xs ++ ys) = total rate dt xs + total rate dt ys := by
  simp [total_eq_sum]

theorem split (rate dt : Step → Rat) (parts : List (List Step)) :
    total rate dt parts.flatten = (parts.map (total rate dt)).sum := by
  induction parts with
  | nil => simp [total_eq_sum]
  | cons p ps ih => simp [append, ih]

/-- **Order-free.** Reordering the intervals together with their inputs changes nothing. -/
theorem perm (rate dt : Step → Rat) {xs ys : List Step} (h : xs.Perm ys) :
    total rate dt xs = total rate dt ys := by
  rw [total_eq_sum, total_eq_sum]; exact (h.map _).sum_eq

/-- **Linear in interval length.** -/
theorem scale (rate dt : Step → Rat) (c : Rat) (xs : List Step) :
    total rate (fun s => c * dt s) xs = c * total rate dt xs := by
  rw [total_eq_sum, total_eq_sum]
  induction xs with
  | nil => simp
  | cons s xs ih => simp only [List.map_cons, List.sum_cons, ih]; ring

/-- The reported duration is the sum of the intervals (additive, order-free, linear as well). -/
theorem duration_eq (dts : List Rat) : duration (.series dts) = dts.sum := by
  simp [duration, rsum_eq_sum]

theorem duration_append (ds es : List Rat) :
    duration (.series (ds ++ es)) = duration (.series ds) + duration (.series es) := by
  simp [duration, rsum_append]

/-- A single operating point with a scalar interval is a series of length one. -/
theorem singleton (x dt : Rat) : integrate [x] (.scalar dt) = integrate [x] (.series [dt]) ∧
    duration (.scalar dt) = duration (.series [dt]) := by
  constructor
  · simp [integrate, valid, TimeBase.expand]
  · simp [duration]

/-- `integrate_data(…, sum_with_time)` is such a total. -/
theorem integrate_is_total (rate dts : List Rat) (h : dts.length = rate.length) :
    integrate rate (.series dts) = some ((List.zipWith (· * ·) rate dts).sum) := by
  unfold integrate
  simp only [valid, h, beq_self_eq_true, if_true, TimeBase.expand]
  rw [dot_eq_rsum_zipWith, rsum_eq_sum]

theorem dot_replicate (r : Rat) (dts : List Rat) : dot (List.replicate dts.length r) dts = r * rsum dts := by
  induction dts with
  | nil => simp [dot, rsum]
  | cons d ds ih => simp only [List.length_cons, List.replicate_succ, dot, ih, rsum_cons]; ring

/-- Where the lengths agree nothing changes … -/
theorem integrateC_eq (rate dts : List Rat) (h : dts.length = rate.length) :
    integrateC rate (.series dts) = integrate rate (.series dts) := by
  match rate, h with
  | [r], h =>
    have h1 : dts.length = 1 := by simpa using h
    simp [integrateC, h1]
  | [], _ => rfl
  | _ :: _ :: _, _ => rfl

/-- … and a single value integrates like the constant series written out (D87): the two representations of
a constant load or power give the same energy. -/
theorem integrateC_constant (r : Rat) (dts : List Rat) (h : 1 < dts.length) :
    integrateC [r] (.series dts) = integrate (List.replicate dts.length r) (.series dts) := by
  unfold integrateC integrate
  simp only [valid, List.length_replicate, beq_self_eq_true, if_true, TimeBase.expand]
  rw [if_neg (by omega), dot_replicate]

/-- As found, a single value next to several intervals was refused (and the results then dropped the energy). -/
theorem integrate_legacy_refuses_constant :
    integrate [100] (.series [10, 20, 30]) = none ∧ integrateC [100] (.series [10, 20, 30]) = some 6000 := by
  decide +kernel

/-- Running hours are additive over a split … -/
theorem running_hours_append (p q d e : List Rat) (h : p.length = d.length) :
    runningHours (p ++ q) (d ++ e) = runningHours p d + runningHours q e := by
  induction p generalizing d with
  | nil => cases d with
    | nil => simp [runningHours]
    | cons _ _ => cases h
  | cons x p ih => cases d with
    | nil => cases h
    | cons y d =>
      simp only [List.cons_append, runningHours]
      rw [ih d (by simpa using h)]; ring

/-- … and scale with the interval lengths. -/
theorem running_hours_scale (c : Rat) (p d : List Rat) :
    runningHours p (d.map (c * ·)) = c * runningHours p d := by
  induction p generalizing d with
  | nil => cases d <;> simp [runningHours]
  | cons x p ih => cases d with
    | nil => simp [runningHours]
    | cons y d =>
      simp only [List.map_cons, runningHours, ih]
      split <;> ring

/-! ### Non-vacuity -/

example : total (fun s : Rat × Rat => s.1) (fun s => s.2) [(2, 10), (3, 20), (5, 30)] = 230 ∧
    total (fun s : Rat × Rat => s.1) (fun s => s.2) [(5, 30), (2, 10), (3, 20)] = 230 := by
  constructor <;> decide +kernel

end Feems.Props.C11
