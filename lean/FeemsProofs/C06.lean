/-
C06 — components never create energy; conversion is bounded and self-consistent.
The characteristic `η` is arbitrary in every theorem (single value or any curve, any interpolant).
Sign convention of the code: power `> 0` flows from the input (supply) side to the output
(delivery) side; power `< 0` flows the other way, so the supply side is then the output side.
-/
import FeemsProofs.Prelude
import FeemsModel.Model.Component

set_option linter.unusedSimpArgs false
set_option linter.unusedVariables false

namespace Feems.Props.C06
open Feems Feems.Comp

variable (η inv : Rat → Rat) (rated : Rat)

/-- The efficiency in use is always between 1 % and 100 %. -/
theorem clamp_bounds (x : Rat) : 1 / 100 ≤ effHat η x ∧ effHat η x ≤ 1 :=
  Feems.clamp_bounds (by norm_num) _

theorem effHat_pos (x : Rat) : 0 < effHat η x := lt_of_lt_of_le (by norm_num) (clamp_bounds η x).1

/-- Forward flow: the supplied power times the efficiency at that load is the delivered power
(the ratio is the clamped efficiency), and supply ≥ delivery. -/
theorem fwd_ratio (out : Rat) : fwd η rated out * effHat η (load rated out) = out := by
  unfold fwd; exact div_mul_cancel₀ _ (effHat_pos η _).ne'

theorem fwd_supply_ge_delivery (out : Rat) (h : 0 ≤ out) : out ≤ fwd η rated out := by
  unfold fwd
  rw [le_div_iff₀ (effHat_pos η _)]
  have := (clamp_bounds η (load rated out)).2
  nlinarith

/-- Reverse flow through the forward formula (`outFromIn` with `inp ≤ 0`): the magnitude on the
output side (now the supply side) is at least the magnitude on the input side. -/
theorem fwd_reverse_supply_ge_delivery (inp : Rat) (h : inp ≤ 0) : fwd η rated inp ≤ inp := by
  unfold fwd
  rw [div_le_iff₀ (effHat_pos η _)]
  have := (clamp_bounds η (load rated inp)).2
  nlinarith

/-- The forward map keeps the sign and zero flow gives zero. -/
theorem fwd_zero : fwd η rated 0 = 0 := by unfold fwd; simp

theorem fwd_nonneg (out : Rat) (h : 0 ≤ out) : 0 ≤ fwd η rated out :=
  le_trans h (fwd_supply_ge_delivery η rated out h)

theorem fwd_nonpos (inp : Rat) (h : inp ≤ 0) : fwd η rated inp ≤ 0 :=
  le_trans (fwd_reverse_supply_ge_delivery η rated inp h) h

/-- Zero flow gives zero on both sides in both conversions (the inverse is only consulted for
non-zero flow in the scalar dispatch). -/
theorem zero_flow : inFromOut η inv rated 0 = 0 ∧ outFromIn η inv rated 0 = 0 := by
  unfold inFromOut outFromIn
  simp [fwd_zero]

/-! ### The limited interpolated inverse (after the repair of D27) -/

/-- Whatever the interpolant returns, the conversion hands on no more than it was given. -/
theorem invC_bounds (v : Rat) : -|v| ≤ invC inv v ∧ invC inv v ≤ |v| := by
  unfold invC; rw [rabs_eq_abs]
  exact Feems.clamp_bounds (by linarith [abs_nonneg v]) _

theorem invC_abs_le (v : Rat) : |invC inv v| ≤ |v| := abs_le.mpr (invC_bounds inv v)

/-- Where the interpolant itself stays within the magnitude of its argument the limit changes nothing. -/
theorem invC_eq_of_abs_le (v : Rat) (h : |inv v| ≤ |v|) : invC inv v = inv v := by
  have h' := abs_le.mp h
  unfold invC clamp; rw [rabs_eq_abs]
  rw [if_neg (not_lt.mpr h'.1), if_neg (not_lt.mpr h'.2)]

theorem invC_zero : invC inv 0 = 0 := by
  have h := invC_bounds inv 0
  simp only [abs_zero, neg_zero] at h
  exact le_antisymm h.2 h.1

/-- **No energy is created, in either conversion, in either direction, for every characteristic and
every interpolant** (no hypothesis on `inv`: this is what the limit of D27 buys). Forward flow:
supply ≥ delivery; reverse flow: the magnitude handed on is at most the magnitude received. -/
theorem no_energy_created :
    (∀ out, 0 ≤ out → out ≤ inFromOut η inv rated out) ∧
    (∀ out, out < 0 → |inFromOut η inv rated out| ≤ |out|) ∧
    (∀ inp, 0 < inp → |outFromIn η inv rated inp| ≤ |inp|) ∧
    (∀ inp, inp ≤ 0 → outFromIn η inv rated inp ≤ inp) := by
  refine ⟨?_, ?_, ?_, ?_⟩
  · intro out h; unfold inFromOut; rw [if_pos h]; exact fwd_supply_ge_delivery η rated out h
  · intro out h; unfold inFromOut; rw [if_neg (not_le.mpr h)]; exact invC_abs_le inv out
  · intro inp h; unfold outFromIn; rw [if_pos h]; exact invC_abs_le inv inp
  · intro inp h; unfold outFromIn; rw [if_neg (not_lt.mpr h)]; exact fwd_reverse_supply_ge_delivery η rated inp h

/-- As found (D27) the raw interpolant was handed on: an interpolant that overshoots (as PCHIP does next to a
curve point with 100 % efficiency) created energy. -/
theorem legacy_creates_energy :
    ∃ (inv : Rat → Rat) (v : Rat), v < 0 ∧ |v| < |invLegacy inv v| ∧ |invC inv v| ≤ |v| := by
  refine ⟨fun v => v + v / 100000, -2000, by norm_num, ?_, invC_abs_le _ _⟩
  unfold invLegacy; norm_num [abs_of_neg]

/-- An inverse is *exact* when it inverts the forward map on reverse flows. -/
def ExactInverse : Prop :=
  (∀ v, v < 0 → inv v ≤ 0 ∧ fwd η rated (inv v) = v) ∧ (∀ v, 0 < v → 0 ≤ inv v ∧ fwd η rated (inv v) = v)

/-- With an exact inverse no energy is created in reverse flow either: `|inv v| ≤ |v|`. -/
theorem exact_inverse_no_energy (h : ExactInverse η inv rated) (v : Rat) :
    (v < 0 → v ≤ inv v) ∧ (0 < v → inv v ≤ v) := by
  constructor
  · intro hv
    obtain ⟨h1, h2⟩ := h.1 v hv
    have := fwd_reverse_supply_ge_delivery η rated (inv v) h1
    linarith
  · intro hv
    obtain ⟨h1, h2⟩ := h.2 v hv
    have := fwd_supply_ge_delivery η rated (inv v) h1
    linarith

/-- An exact inverse is not touched by the limit. -/
theorem invC_of_exact (h : ExactInverse η inv rated) (v : Rat) (hv : v ≠ 0) : invC inv v = inv v := by
  apply invC_eq_of_abs_le
  rcases lt_or_gt_of_ne hv with hneg | hpos
  · have h1 := (h.1 v hneg).1
    have h2 := (exact_inverse_no_energy η inv rated h v).1 hneg
    rw [abs_of_nonpos h1, abs_of_neg hneg]; linarith
  · have h1 := (h.2 v hpos).1
    have h2 := (exact_inverse_no_energy η inv rated h v).2 hpos
    rw [abs_of_nonneg h1, abs_of_pos hpos]; exact h2

/-- … and the two conversions are mutually inverse (delivered → supplied → delivered). -/
theorem roundtrip_exact (h : ExactInverse η inv rated) (x : Rat) (hinj : ∀ a b, fwd η rated a = fwd η rated b → a = b) :
    outFromIn η inv rated (inFromOut η inv rated x) = x := by
  unfold outFromIn inFromOut
  by_cases hx : 0 ≤ x
  · rw [if_pos hx]
    by_cases hx0 : x = 0
    · subst hx0; simp [fwd_zero]
    · have hpos : 0 < x := lt_of_le_of_ne hx (Ne.symm hx0)
      have hf : 0 < fwd η rated x := lt_of_lt_of_le hpos (fwd_supply_ge_delivery η rated x hx)
      rw [if_pos hf, invC_of_exact η inv rated h _ hf.ne']
      exact hinj _ _ (h.2 _ hf).2
  · have hneg : x < 0 := not_le.mp hx
    rw [if_neg hx, invC_of_exact η inv rated h _ hneg.ne]
    have := (h.1 x hneg)
    rw [if_neg (not_lt.mpr this.1)]
    exact this.2

/-- **Interpolated inverse (partial).** If the inverse is exact at two neighbouring samples
`o₁ ≤ o₂` of the table it is built from and monotone between them, it differs from any exact,
monotone inverse by at most the sample spacing (`rated/100`, i.e. 1 % of rated power). The
property claims 0.5 %: that figure depends on scipy's PCHIP and is validated by sampling only. -/
theorem interp_inverse_partial (inv e : Rat → Rat) (k₁ k₂ o₁ o₂ v : Rat)
    (hv : k₁ ≤ v ∧ v ≤ k₂)
    (hinv1 : inv k₁ = o₁) (hinv2 : inv k₂ = o₂) (he1 : e k₁ = o₁) (he2 : e k₂ = o₂)
    (hmono : ∀ a b, k₁ ≤ a → a ≤ b → b ≤ k₂ → inv a ≤ inv b)
    (hmonoe : ∀ a b, k₁ ≤ a → a ≤ b → b ≤ k₂ → e a ≤ e b) :
    |inv v - e v| ≤ o₂ - o₁ := by
  have a1 := hmono k₁ v (le_refl _) hv.1 hv.2
  have a2 := hmono v k₂ hv.1 hv.2 (le_refl _)
  have b1 := hmonoe k₁ v (le_refl _) hv.1 hv.2
  have b2 := hmonoe v k₂ hv.1 hv.2 (le_refl _)
  rw [hinv1] at a1; rw [hinv2] at a2; rw [he1] at b1; rw [he2] at b2
  rw [abs_le]; constructor <;> linarith

theorem knot_spacing (k : Nat) : knotOut rated (k + 1) - knotOut rated k = rated / 100 := by
  unfold knotOut; push_cast; ring

/-- Strict balance: a zero residual of the power-balance equation is an exact round trip. -/
theorem strict_zero_residual (x pin : Rat) (h : x - pin * effHat η (load rated x) = 0) :
    fwd η rated x = pin := by
  unfold fwd
  rw [div_eq_iff (effHat_pos η _).ne']; linarith

/-- Array evaluation = element-wise scalar evaluation: the two dispatches differ only at exactly
zero, where both give zero (the limited inverse maps 0 to 0 whatever the interpolant says; before
D27 this needed `inv 0 = 0`, and the code returned 1e-19). -/
theorem array_eq_scalar (out : Rat) :
    inFromOutArr η inv rated out = inFromOut η inv rated out := by
  unfold inFromOutArr inFromOut
  by_cases h : 0 < out
  · rw [if_pos h, if_pos h.le]
  · rw [if_neg h]
    by_cases h' : 0 ≤ out
    · have : out = 0 := le_antisymm (not_lt.mp h) h'
      subst this; rw [if_pos (le_refl _), invC_zero, fwd_zero]
    · rw [if_neg h']

/-! ### Serial trains -/

theorem prod_bounds (l : List Rat) (h : ∀ x ∈ l, 0 < x ∧ x ≤ 1) :
    0 < l.foldr (· * ·) 1 ∧ l.foldr (· * ·) 1 ≤ 1 := by
  induction l with
  | nil => simp
  | cons a l ih =>
    have ha := h a (by simp)
    have ih' := ih (fun x hx => h x (List.mem_cons_of_mem _ hx))
    simp only [List.foldr_cons]
    constructor
    · exact mul_pos ha.1 ih'.1
    · calc a * l.foldr (· * ·) 1 ≤ 1 * 1 := by
            apply mul_le_mul ha.2 ih'.2 ih'.1.le (by norm_num)
        _ = 1 := by norm_num

/-- The train's efficiency at a sample point is the product of its stages' clamped
efficiencies, each stage at its own load (definition), and lies in (0, 1]. -/
theorem serial_eff_bounds (stages : List Stage) (x : Rat) :
    0 < serialEff stages x ∧ serialEff stages x ≤ 1 := by
  unfold serialEff
  apply prod_bounds
  intro y hy
  obtain ⟨sl, _, rfl⟩ := List.mem_map.mp hy
  exact ⟨effHat_pos _ _, (clamp_bounds _ _).2⟩

/-- For equally rated stages every stage is at the system load … -/
theorem serial_equal_ratings (η₁ η₂ : Rat → Rat) (r x : Rat) (hr : 0 < r) (hx : 0 ≤ x) :
    serialEff [⟨r, η₁⟩, ⟨r, η₂⟩] x = effHat η₁ x * effHat η₂ x := by
  have : rabs (r * x) / r = x := by
    rw [rabs_eq_abs, abs_of_nonneg (mul_nonneg hr.le hx)]; field_simp
  simp [serialEff, stageLoads, stageLoadsFrom, this]

/-- … and for different ratings stage 2 is at `rated₁ · x / rated₂`. -/
theorem serial_two_stage (η₁ η₂ : Rat → Rat) (r₁ r₂ x : Rat) (hr : 0 < r₁) (hx : 0 ≤ x) :
    serialEff [⟨r₁, η₁⟩, ⟨r₂, η₂⟩] x = effHat η₁ x * effHat η₂ (r₁ * x / r₂) := by
  have : rabs (r₁ * x) = r₁ * x := by rw [rabs_eq_abs, abs_of_nonneg (mul_nonneg hr.le hx)]
  simp [serialEff, stageLoads, stageLoadsFrom, this]

/-- Before the repair of D9 the sample abscissa was the *last* stage's load: with ratings
1000 / 500 the point computed for system load 1/2 was filed under load 1. -/
theorem legacy_abscissa_wrong :
    serialAbscissaLegacy [⟨1000, fun _ => 1⟩, ⟨500, fun _ => 1⟩] (1 / 2) = 1 := by
  decide +kernel

/-! ### Electric machines by role -/

/-- The other round trip (supplied → delivered → supplied). -/
theorem roundtrip_exact' (h : ExactInverse η inv rated) (x : Rat)
    (hinj : ∀ a b, fwd η rated a = fwd η rated b → a = b) :
    inFromOut η inv rated (outFromIn η inv rated x) = x := by
  unfold outFromIn inFromOut
  by_cases hx : 0 < x
  · rw [if_pos hx, invC_of_exact η inv rated h _ hx.ne', if_pos (h.2 x hx).1]
    exact (h.2 x hx).2
  · rw [if_neg hx]
    have hx' : x ≤ 0 := not_lt.mp hx
    have hle := fwd_reverse_supply_ge_delivery η rated x hx'
    by_cases hf : 0 ≤ fwd η rated x
    · have hx0 : x = 0 := by linarith
      subst hx0
      rw [fwd_zero, if_pos (le_refl _), fwd_zero]
    · rw [if_neg hf, invC_of_exact η inv rated h _ (not_le.mp hf).ne]
      exact hinj _ _ (h.1 _ (not_le.mp hf)).2

/-- For every role the two conversions of an electric machine are mutually inverse
(exact inverse, injective forward map). -/
theorem machine_roles (h : ExactInverse η inv rated)
    (hinj : ∀ a b, fwd η rated a = fwd η rated b → a = b) (role : Role) (p : Rat) :
    electricFromShaft role η inv rated (shaftFromElectric role η inv rated p) = p := by
  cases role
  · exact roundtrip_exact η inv rated h p hinj
  · exact roundtrip_exact' η inv rated h p hinj
  · exact roundtrip_exact' η inv rated h p hinj

/-! ### Non-vacuity: a 4-point curve with a value above 1 (clamped) -/

def exEta : Rat → Rat := fun x => if x ≤ 1 / 4 then 9 / 10 else if x ≤ 1 / 2 then 95 / 100 else 21 / 20

example : effHat exEta (3 / 4) = 1 ∧ effHat exEta (1 / 4) = 9 / 10 ∧
    fwd exEta 1000 250 = 250 / (9 / 10) ∧ fwd exEta 1000 750 = 750 := by
  refine ⟨?_, ?_, ?_, ?_⟩ <;> decide +kernel

end Feems.Props.C06
