/-
C20 — invalid configurations are rejected; supported ones are accepted.
-/
import FeemsProofs.C06
import FeemsProofs.C08
import FeemsModel.Model.Validate
import FeemsModel.Model.ElectricBalance
import FeemsModel.Model.Engine

set_option linter.unusedSimpArgs false
set_option linter.unusedVariables false

namespace Feems.Props.C20
open Feems Feems.Validate

/-- **Rejects.** Each of the listed families, violated anywhere, makes the configuration rejected. -/
theorem rejects (c : Config) :
    ((checks c).everySwitchboardSupplied = false → accepted c = false) ∧
    ((checks c).positiveIds = false → accepted c = false) ∧
    ((checks c).breakersPresent = false → accepted c = false) ∧
    ((checks c).uniqueNames = false → accepted c = false) ∧
    ((checks c).kindsOK = false → accepted c = false) ∧
    ((checks c).samePti = false → accepted c = false) ∧
    ((checks c).positiveRatings = false → accepted c = false) ∧
    ((checks c).monotone = false → accepted c = false) ∧
    ((checks c).fuels = false → accepted c = false) ∧
    ((checks c).lengths = false → accepted c = false) := by
  unfold accepted Checks.all
  refine ⟨?_, ?_, ?_, ?_, ?_, ?_, ?_, ?_, ?_, ?_⟩ <;> intro h <;> simp [h]

/-- **Accepts.** A configuration is accepted exactly when none of the families is violated. -/
theorem accepts_iff (c : Config) :
    accepted c = true ↔
      (checks c).everySwitchboardSupplied ∧ (checks c).positiveIds ∧ (checks c).breakersPresent ∧ (checks c).uniqueNames ∧
      (checks c).kindsOK ∧ (checks c).samePti ∧ (checks c).positiveRatings ∧ (checks c).monotone ∧ (checks c).fuels ∧
      (checks c).lengths := by
  unfold accepted Checks.all
  simp only [Bool.and_eq_true]
  constructor
  · rintro ⟨⟨⟨⟨⟨⟨⟨⟨⟨a, b⟩, c'⟩, d⟩, e⟩, f⟩, g⟩, h⟩, i⟩, j⟩; exact ⟨a, b, c', d, e, f, g, h, i, j⟩
  · rintro ⟨a, b, c', d, e, f, g, h, i, j⟩; exact ⟨⟨⟨⟨⟨⟨⟨⟨⟨a, b⟩, c'⟩, d⟩, e⟩, f⟩, g⟩, h⟩, i⟩, j⟩

/-- Concrete members of the families (what the single invalidating changes of the correspondence
do): a switchboard with loads only, number 0, two switchboards without breaker, a name used twice in
one category, a zero rating, a user fuel without factors, a table fuel with factors, unequal series. -/
theorem family_witnesses :
    (checks ⟨[⟨"g", 1, .source, true, 100⟩, ⟨"l", 2, .consumer, true, 50⟩], 1, [], false, [], [], [], [], []⟩).everySwitchboardSupplied = false ∧
    (checks ⟨[⟨"g", 0, .source, true, 100⟩], 0, [], false, [], [], [], [], []⟩).positiveIds = false ∧
    (checks ⟨[⟨"g", 1, .source, true, 100⟩, ⟨"h", 2, .source, true, 100⟩], 0, [], false, [], [], [], [], []⟩).breakersPresent = false ∧
    (checks ⟨[⟨"g", 1, .source, true, 100⟩, ⟨"g", 1, .source, true, 200⟩], 0, [], false, [], [], [], [], []⟩).uniqueNames = false ∧
    (checks ⟨[⟨"g", 1, .source, true, 0⟩], 0, [], false, [], [], [], [], []⟩).positiveRatings = false ∧
    fuelOK ⟨true, true, false, true⟩ = false ∧ fuelOK ⟨false, true, false, false⟩ = false ∧
    lengthsOK [5, 5, 4] = false ∧ lengthsOK [5, 1, 5] = true := by
  decide +kernel

/-- The same name in *different* categories or on different switchboards is not a duplicate. -/
theorem names_per_category :
    namesUnique [⟨"a", 1, .source, true, 1⟩, ⟨"a", 1, .consumer, true, 1⟩, ⟨"a", 2, .source, true, 1⟩] = true := by
  decide +kernel

/-- A curve whose efficiency jumps up (less input for more output) makes the input-output map non-monotone and is rejected;
a constant efficiency is accepted. -/
theorem monotone_examples :
    monotoneMap (fun _ => 9 / 10) 1000 = true ∧
    monotoneMap (fun x => if x < 1 / 2 then 3 / 10 else 95 / 100) 1000 = false := by
  constructor <;> decide +kernel

/-! ### Accepted configurations give finite results: no division by zero anywhere in the model -/

/-- With a positive rating the load is defined, the efficiency in use is positive, and every
lower heating value of the packaged tables is positive: the denominators of C06-C08 are non-zero. -/
theorem denominators_nonzero (η : Rat → Rat) (rated p : Rat) (hr : 0 < rated) :
    rated ≠ 0 ∧ Comp.effHat η (Comp.load rated p) ≠ 0 ∧ 0 ≤ Comp.load rated p := by
  refine ⟨hr.ne', (C06.effHat_pos η _).ne', ?_⟩
  unfold Comp.load; exact div_nonneg (rabs_nonneg p) hr.le

theorem lhv_positive : ∀ r ∈ Generated.FuelTables.euRows ++ Generated.FuelTables.imoRows,
    Ghg.rowComplete r = true → ∃ v, r.lcv = some v ∧ 0 < v := by
  decide +kernel

/-- With balancing capacity wherever there is net load, the bus load fraction is a quotient with a
non-zero denominator (C01), and with running engines wherever engine power is needed so is the
shaft-line fraction (C04). -/
theorem fraction_defined (g : List Electric.Swb) (h : Electric.defined g = true) :
    Electric.busLoad g = 0 ∨ Electric.busCap g ≠ 0 := by
  unfold Electric.defined at h
  simp only [Bool.or_eq_true, decide_eq_true_eq, bne_iff_ne, ne_eq] at h
  exact h

/-! ### Non-vacuity: a valid base configuration of each plant type is accepted -/

example : accepted ⟨[⟨"g1", 1, .source, true, 1000⟩, ⟨"l1", 1, .consumer, true, 300⟩, ⟨"b1", 2, .storage, true, 200⟩, ⟨"p", 2, .ptiPto, true, 400⟩],
      1, [⟨"me", 1, .source, true, 2000⟩, ⟨"prop", 1, .consumer, true, 1800⟩, ⟨"p", 1, .ptiPto, true, 400⟩], true, [7], [7],
      [true, true], [⟨false, false, false, false⟩, ⟨true, true, true, true⟩], [8, 8, 1, 8]⟩ = true := by
  decide +kernel

end Feems.Props.C20
