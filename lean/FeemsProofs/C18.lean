/-
C18 — fuel-consumption records add, scale and split without loss or side effects.
Property theorems only (helper lemmas live in `Lemmas/FuelLemmas.lean`).

The mass type `M` is arbitrary: `Rat` for scalar masses, `Fin n → Rat` (or any other
commutative (semi)ring of series with element-wise operations) for time series.
"Operands are left unchanged" has no content in a value model; that clause is decided
by the correspondence check only (it snapshots the implementation's operands).
-/
import FeemsProofs.Lemmas.KVLemmas
import FeemsModel.Model.Fuel

set_option linter.unusedSimpArgs false
set_option linter.unusedSectionVars false

namespace Feems.Props.C18
open Feems Feems.KV Feems.Fuel

section additive
variable {M : Type} [AddCommMonoid M]

/-- Adding records adds the mass of every fuel kind — for all records, also those that list a kind
twice (a dual-fuel engine whose pilot fuel is of the same kind as its main fuel). -/
theorem add_mass (k : Kind) (a b : Rec M) : massOf k (add a b) = massOf k a + massOf k b :=
  massOf_add k a b

/-- … and therefore the total. -/
theorem add_total (a b : Rec M) : total (add a b) = total a + total b := total_add a b

/-- No kind appears or disappears. -/
theorem add_kinds (k : Kind) (a b : Rec M) : k ∈ kinds (add a b) ↔ k ∈ kinds a ∨ k ∈ kinds b :=
  mem_kinds_add k a b

/-- The sum of two well-formed records is well formed (no kind listed twice). -/
theorem add_wellFormed (a b : Rec M) (ha : WellFormed a) (hb : WellFormed b) :
    WellFormed (add a b) := wellFormed_add a b ha hb

/-- On well-formed records the sum is the union merge, kinds of the left operand first. -/
theorem add_is_union_merge (a b : Rec M) (ha : WellFormed a) (hb : WellFormed b) :
    add a b = addSpec a b := add_eq_spec a b ha hb

/-- Operand order does not matter (as a map kind ↦ mass). -/
theorem add_comm (k : Kind) (a b : Rec M) : massOf k (add a b) = massOf k (add b a) := by
  rw [add_mass, add_mass, _root_.add_comm]

/-- Grouping does not matter. -/
theorem add_assoc (k : Kind) (a b c : Rec M) :
    massOf k (add (add a b) c) = massOf k (add a (add b c)) := by
  simp only [add_mass, _root_.add_assoc]

/-- The empty record is neutral on both sides (list equality, not only as a map). -/
theorem add_empty_left (b : Rec M) : add [] b = b := rfl
theorem add_empty_right (a : Rec M) : add a [] = a := by
  induction a with
  | nil => rfl
  | cons e a ih => simp [add, takeFirst, ih]

end additive

section scaling
variable {M : Type} [CommSemiring M]

/-- Scaling multiplies every mass. -/
theorem scale_mass (k : Kind) (r : Rec M) (c : M) : massOf k (scale r c) = massOf k r * c := by
  induction r with
  | nil => simp [scale, massOf]
  | cons e r ih =>
    have : scale (e :: r) c = (e.1, e.2 * c) :: scale r c := rfl
    rw [this, massOf_cons, massOf_cons, ih]
    by_cases h : e.1 = k <;> simp [h, add_mul]

theorem scale_total (r : Rec M) (c : M) : total (scale r c) = total r * c := by
  induction r with
  | nil => simp [scale]
  | cons e r ih =>
    have : scale (e :: r) c = (e.1, e.2 * c) :: scale r c := rfl
    rw [this, total_cons, total_cons, ih, add_mul]

theorem scale_kinds (r : Rec M) (c : M) : kinds (scale r c) = kinds r := by
  simp [scale, kinds, List.map_map, Function.comp_def]

end scaling

section fractions

theorem fractions_mass (k : Kind) (r : Rec Rat) (h : total r ≠ 0) :
    massOf k (fractions r) = massOf k r / total r := by
  unfold fractions
  rw [if_neg h]
  have : ∀ t : Rat, massOf k (r.map (fun e => (e.1, e.2 / t))) = massOf k r / t := by
    intro t
    clear h
    induction r with
    | nil => simp [massOf]
    | cons e r ih =>
      rw [List.map_cons, massOf_cons, massOf_cons, ih]
      by_cases hk : e.1 = k <;> simp [hk, add_div]
  exact this _

/-- Mass fractions sum to one wherever consumption is non-zero … -/
theorem fractions_sum (r : Rec Rat) (h : total r ≠ 0) : total (fractions r) = 1 := by
  unfold fractions
  rw [if_neg h]
  have : ∀ t : Rat, total (r.map (fun e => (e.1, e.2 / t))) = total r / t := by
    intro t
    clear h
    induction r with
    | nil => simp
    | cons e r ih => rw [List.map_cons, total_cons, total_cons, ih, add_div]
  rw [this, div_self h]

/-- … and are zero elsewhere. -/
theorem fractions_zero (k : Kind) (r : Rec Rat) (h : total r = 0) : massOf k (fractions r) = 0 := by
  unfold fractions; rw [if_pos h]; rfl

end fractions

/-! ### Non-vacuity and the limits of the statement -/

def dieselF : Kind := ⟨0, 1, 2⟩
def gasF : Kind := ⟨2, 1, 2⟩
def gasBioEU : Kind := ⟨2, 2, 1⟩

/-- The hypotheses are satisfiable, on operands that overlap in one kind and differ in another. -/
example : WellFormed ([(dieselF, (3:Rat)), (gasF, 5)] : Rec Rat) ∧
    WellFormed ([(gasF, (7:Rat)), (gasBioEU, 11)] : Rec Rat) ∧
    add [(dieselF, (3:Rat)), (gasF, 5)] [(gasF, 7), (gasBioEU, 11)]
      = [(dieselF, 3), (gasF, 12), (gasBioEU, 11)] := by
  refine ⟨by decide, by decide, by decide +kernel⟩

/-- Records that list a kind twice (main and pilot fuel of one kind) are covered: each right-hand
entry finds one partner. -/
example : add [(dieselF, (3:Rat)), (dieselF, 5)] [(dieselF, 4), (dieselF, 1)]
    = [(dieselF, 7), (dieselF, 6)] := by decide +kernel

/-- The addition as found (before the repair of D20) added the right-hand entry twice when the
left operand listed its kind twice (3+4 and 5+4: total 16, not 12) … -/
theorem legacy_counts_twice :
    total (addLegacy [(dieselF, (3:Rat)), (dieselF, 5)] [(dieselF, 4)]) = 16 := by decide +kernel

/-- … which the repaired addition does not. -/
example : total (add [(dieselF, (3:Rat)), (dieselF, 5)] [(dieselF, 4)]) = 12 := by decide +kernel

/-- On well-formed right operands the two coincide on the left operand's entries: the repair
changes nothing for records without repeated kinds. -/
theorem legacy_eq_of_wellFormed {M : Type} [AddCommMonoid M] (a b : Rec M) (ha : WellFormed a)
    (hb : WellFormed b) : massOf k (addLegacy a b) = massOf k (add a b) := by
  have h1 : addLegacy a b = addSpec a b := by
    unfold addLegacy addSpec
    split
    · rename_i h
      have : a = [] := List.isEmpty_iff.mp h
      subst this; simp [kinds]
    · congr 1
      · unfold addMatched
        apply List.map_congr_left
        intro e _
        rw [← firstOf_eq e.1 b hb]
        cases firstOf e.1 b <;> simp
      · exact addRest_eq_filter _ _ _ hb (by simp)
  rw [h1, add_eq_spec a b ha hb]

end Feems.Props.C18
