/-
C18 — fuel-consumption records add, scale and split without loss or side effects.
Property theorems only (helper lemmas live in `Lemmas/FuelLemmas.lean`).

The mass type `M` is arbitrary: `Rat` for scalar masses, `Fin n → Rat` (or any other
commutative (semi)ring of series with element-wise operations) for time series.
"Operands are left unchanged" has no content in a value model; that clause is decided
by the correspondence check only (it snapshots the implementation's operands).
-/
import FeemsProofs.Lemmas.FuelLemmas

set_option linter.unusedSimpArgs false
set_option linter.unusedSectionVars false

namespace Feems.Props.C18
open Feems Feems.Fuel

section additive
variable {M : Type} [AddCommMonoid M]

/-- Adding records adds the mass of every fuel kind. -/
theorem add_mass (k : Kind) (a b : Rec M) (ha : WellFormed a) (hb : WellFormed b) :
    massOf k (add a b) = massOf k a + massOf k b := by
  rw [add_eq_spec a b hb, addSpec, massOf_append]
  -- left part: the entries of `a`, each with the mass of its kind in `b` added
  have h1 : massOf k (a.map (fun e => (e.1, e.2 + massOf e.1 b))) =
      massOf k a + (if k ∈ kinds a then massOf k b else 0) := by
    induction a with
    | nil => simp [massOf, kinds]
    | cons e a ih =>
      have ha' : WellFormed a := (List.nodup_cons.mp ha).2
      have hnot : e.1 ∉ kinds a := (List.nodup_cons.mp ha).1
      rw [List.map_cons, massOf_cons, massOf_cons, ih ha']
      have hk : k ∈ kinds (e :: a) ↔ k = e.1 ∨ k ∈ kinds a := by simp [kinds]
      by_cases h : e.1 = k
      · subst h
        rw [if_pos rfl, if_pos rfl, if_neg hnot, if_pos (hk.mpr (Or.inl rfl)), add_zero]
        show e.2 + massOf e.1 b + massOf e.1 a = e.2 + massOf e.1 a + massOf e.1 b
        ac_rfl
      · have h' : ¬ k = e.1 := fun x => h x.symm
        rw [if_neg h, if_neg h, zero_add, zero_add]
        by_cases hm : k ∈ kinds a
        · rw [if_pos hm, if_pos (hk.mpr (Or.inr hm))]
        · rw [if_neg hm, if_neg (fun x => (hk.mp x).elim h' hm)]
  -- right part: the entries of `b` whose kind is not in `a`
  have h2 : massOf k (b.filter (fun e => decide (e.1 ∉ kinds a))) =
      (if k ∈ kinds a then 0 else massOf k b) := by
    unfold massOf
    rw [List.filter_filter]
    by_cases h : k ∈ kinds a
    · rw [if_pos h]
      have : b.filter (fun e => (decide (e.1 = k) && decide (e.1 ∉ kinds a))) = [] := by
        apply List.filter_eq_nil_iff.mpr
        intro e _ hc
        simp only [Bool.and_eq_true, decide_eq_true_eq] at hc
        exact hc.2 (hc.1 ▸ h)
      rw [this]; rfl
    · rw [if_neg h]
      congr 1
      apply List.filter_congr
      intro e _
      by_cases hk : e.1 = k
      · simp [hk, h]
      · simp [hk]
  rw [h1, h2]
  by_cases h : k ∈ kinds a <;> simp [h, add_assoc]

/-- … and therefore the total. -/
theorem add_total (a b : Rec M) (ha : WellFormed a) (hb : WellFormed b) :
    total (add a b) = total a + total b := by
  rw [add_eq_spec a b hb, addSpec, total_append, total_map_add a (fun k => massOf k b), sum_massOf_eq a b ha, _root_.add_assoc]
  congr 1
  have := total_filter_split (fun e => decide (e.1 ∈ kinds a)) b
  simpa using this

/-- The sum of two well-formed records is well formed (no kind listed twice). -/
theorem add_wellFormed (a b : Rec M) (ha : WellFormed a) (hb : WellFormed b) :
    WellFormed (add a b) := by
  rw [add_eq_spec a b hb]
  unfold addSpec WellFormed kinds
  rw [List.map_append, List.map_map]
  have e1 : ((fun x : Kind × M => x.1) ∘ fun e : Kind × M => (e.1, e.2 + massOf e.1 b)) = fun x : Kind × M => x.1 := rfl
  rw [e1]
  apply List.Nodup.append ha
  · exact List.Nodup.sublist (List.Sublist.map _ List.filter_sublist) hb
  · intro k hk1 hk2
    rcases List.mem_map.mp hk2 with ⟨e, he, rfl⟩
    have := (List.mem_filter.mp he).2
    simp only [decide_eq_true_eq] at this
    exact this hk1

/-- Operand order does not matter (as a map kind ↦ mass). -/
theorem add_comm (k : Kind) (a b : Rec M) (ha : WellFormed a) (hb : WellFormed b) :
    massOf k (add a b) = massOf k (add b a) := by
  rw [add_mass k a b ha hb, add_mass k b a hb ha, _root_.add_comm]

/-- Grouping does not matter. -/
theorem add_assoc (k : Kind) (a b c : Rec M) (ha : WellFormed a) (hb : WellFormed b)
    (hc : WellFormed c) : massOf k (add (add a b) c) = massOf k (add a (add b c)) := by
  rw [add_mass k _ c (add_wellFormed a b ha hb) hc, add_mass k a b ha hb,
    add_mass k a _ ha (add_wellFormed b c hb hc), add_mass k b c hb hc, _root_.add_assoc]

/-- The empty record is neutral on both sides (list equality, not only as a map). -/
theorem add_empty_left (b : Rec M) : add [] b = b := rfl
theorem add_empty_right (a : Rec M) : add a [] = a := by
  unfold add
  split
  · rename_i h; exact (List.isEmpty_iff.mp h).symm
  · simp [addMatched, firstOf, addRest]

end additive

section scaling
variable {M : Type} [CommSemiring M]

/-- Scaling multiplies every mass. -/
theorem scale_mass (k : Kind) (r : Rec M) (c : M) : massOf k (scale r c) = massOf k r * c := by
  induction r with
  | nil => simp [scale, massOf]
  | cons e r ih =>
    have : scale (e :: r) c = (e.1, e.2 * c) :: scale r c := rfl
    rw [this, massOf_cons, massOf_cons, ih]
    by_cases h : e.1 = k <;> simp [h, add_mul]

theorem scale_total (r : Rec M) (c : M) : total (scale r c) = total r * c := by
  induction r with
  | nil => simp [scale]
  | cons e r ih =>
    have : scale (e :: r) c = (e.1, e.2 * c) :: scale r c := rfl
    rw [this, total_cons, total_cons, ih, add_mul]

theorem scale_kinds (r : Rec M) (c : M) : kinds (scale r c) = kinds r := by
  simp [scale, kinds, List.map_map, Function.comp_def]

end scaling

section fractions

theorem fractions_mass (k : Kind) (r : Rec Rat) (h : total r ≠ 0) :
    massOf k (fractions r) = massOf k r / total r := by
  unfold fractions
  rw [if_neg h]
  have : ∀ t : Rat, massOf k (r.map (fun e => (e.1, e.2 / t))) = massOf k r / t := by
    intro t
    clear h
    induction r with
    | nil => simp [massOf]
    | cons e r ih =>
      rw [List.map_cons, massOf_cons, massOf_cons, ih]
      by_cases hk : e.1 = k <;> simp [hk, add_div]
  exact this _

/-- Mass fractions sum to one wherever consumption is non-zero … -/
theorem fractions_sum (r : Rec Rat) (h : total r ≠ 0) : total (fractions r) = 1 := by
  unfold fractions
  rw [if_neg h]
  have : ∀ t : Rat, total (r.map (fun e => (e.1, e.2 / t))) = total r / t := by
    intro t
    clear h
    induction r with
    | nil => simp
    | cons e r ih => rw [List.map_cons, total_cons, total_cons, ih, add_div]
  rw [this, div_self h]

/-- … and are zero elsewhere. -/
theorem fractions_zero (k : Kind) (r : Rec Rat) (h : total r = 0) : massOf k (fractions r) = 0 := by
  unfold fractions; rw [if_pos h]; rfl

end fractions

/-! ### Non-vacuity and the limits of the statement -/

def dieselF : Kind := ⟨0, 1, 2⟩
def gasF : Kind := ⟨2, 1, 2⟩
def gasBioEU : Kind := ⟨2, 2, 1⟩

/-- The hypotheses are satisfiable, on operands that overlap in one kind and differ in another. -/
example : WellFormed ([(dieselF, (3:Rat)), (gasF, 5)] : Rec Rat) ∧
    WellFormed ([(gasF, (7:Rat)), (gasBioEU, 11)] : Rec Rat) ∧
    add [(dieselF, (3:Rat)), (gasF, 5)] [(gasF, 7), (gasBioEU, 11)]
      = [(dieselF, 3), (gasF, 12), (gasBioEU, 11)] := by
  refine ⟨by decide, by decide, by decide +kernel⟩

/-- Well-formedness of the *left* operand is needed: with a kind listed twice on the left the
implementation's matching adds the right-hand mass twice (3+4 and 5+4: total 16, not 12). -/
example : total (add [(dieselF, (3:Rat)), (dieselF, 5)] [(dieselF, 4)]) = 16 := by decide +kernel

end Feems.Props.C18
