/-
C18 — fuel-consumption records add, scale and split without loss or side effects.
Property theorems only (helper lemmas live in `Lemmas/FuelLemmas.lean`).

The mass type `M` is arbitrary: `Rat` for scalar masses, `Fin n → Rat` (or any other
commutative (semi)ring of series with element-wise operations) for time series.
"Operands are left unchanged" has no content in a value model; that clause is decided
by the correspondence check only (it snapshots the implementation's operands).
-/
import FeemsProofs.Lemmas.KVLemmas
import FeemsModel.Model.Fuel

set_option linter.unusedSimpArgs false
set_option linter.unusedSectionVars false

namespace Feems.Props.C18
open Feems Feems.KV Feems.Fuel

section additive
variable {M : Type} [AddCommMonoid M]

/-- Adding records adds the mass of every fuel kind. -/
theorem add_mass (k : Kind) (a b : Rec M) (ha : WellFormed a) (hb : WellFormed b) :
    massOf k (add a b) = massOf k a + massOf k b := by
  rw [add_eq_spec a b hb]; exact massOf_addSpec k a b ha

/-- … and therefore the total. -/
theorem add_total (a b : Rec M) (ha : WellFormed a) (hb : WellFormed b) :
    total (add a b) = total a + total b := by
  rw [add_eq_spec a b hb]; exact total_addSpec a b ha

/-- The sum of two well-formed records is well formed (no kind listed twice). -/
theorem add_wellFormed (a b : Rec M) (ha : WellFormed a) (hb : WellFormed b) :
    WellFormed (add a b) := by
  rw [add_eq_spec a b hb]; exact wellFormed_addSpec a b ha hb

/-- Operand order does not matter (as a map kind ↦ mass). -/
theorem add_comm (k : Kind) (a b : Rec M) (ha : WellFormed a) (hb : WellFormed b) :
    massOf k (add a b) = massOf k (add b a) := by
  rw [add_mass k a b ha hb, add_mass k b a hb ha, _root_.add_comm]

/-- Grouping does not matter. -/
theorem add_assoc (k : Kind) (a b c : Rec M) (ha : WellFormed a) (hb : WellFormed b)
    (hc : WellFormed c) : massOf k (add (add a b) c) = massOf k (add a (add b c)) := by
  rw [add_mass k _ c (add_wellFormed a b ha hb) hc, add_mass k a b ha hb,
    add_mass k a _ ha (add_wellFormed b c hb hc), add_mass k b c hb hc, _root_.add_assoc]

/-- The empty record is neutral on both sides (list equality, not only as a map). -/
theorem add_empty_left (b : Rec M) : add [] b = b := rfl
theorem add_empty_right (a : Rec M) : add a [] = a := by
  unfold add
  split
  · rename_i h; exact (List.isEmpty_iff.mp h).symm
  · simp [addMatched, firstOf, addRest]

end additive

section scaling
variable {M : Type} [CommSemiring M]

/-- Scaling multiplies every mass. -/
theorem scale_mass (k : Kind) (r : Rec M) (c : M) : massOf k (scale r c) = massOf k r * c := by
  induction r with
  | nil => simp [scale, massOf]
  | cons e r ih =>
    have : scale (e :: r) c = (e.1, e.2 * c) :: scale r c := rfl
    rw [this, massOf_cons, massOf_cons, ih]
    by_cases h : e.1 = k <;> simp [h, add_mul]

theorem scale_total (r : Rec M) (c : M) : total (scale r c) = total r * c := by
  induction r with
  | nil => simp [scale]
  | cons e r ih =>
    have : scale (e :: r) c = (e.1, e.2 * c) :: scale r c := rfl
    rw [this, total_cons, total_cons, ih, add_mul]

theorem scale_kinds (r : Rec M) (c : M) : kinds (scale r c) = kinds r := by
  simp [scale, kinds, List.map_map, Function.comp_def]

end scaling

section fractions

theorem fractions_mass (k : Kind) (r : Rec Rat) (h : total r ≠ 0) :
    massOf k (fractions r) = massOf k r / total r := by
  unfold fractions
  rw [if_neg h]
  have : ∀ t : Rat, massOf k (r.map (fun e => (e.1, e.2 / t))) = massOf k r / t := by
    intro t
    clear h
    induction r with
    | nil => simp [massOf]
    | cons e r ih =>
      rw [List.map_cons, massOf_cons, massOf_cons, ih]
      by_cases hk : e.1 = k <;> simp [hk, add_div]
  exact this _

/-- Mass fractions sum to one wherever consumption is non-zero … -/
theorem fractions_sum (r : Rec Rat) (h : total r ≠ 0) : total (fractions r) = 1 := by
  unfold fractions
  rw [if_neg h]
  have : ∀ t : Rat, total (r.map (fun e => (e.1, e.2 / t))) = total r / t := by
    intro t
    clear h
    induction r with
    | nil => simp
    | cons e r ih => rw [List.map_cons, total_cons, total_cons, ih, add_div]
  rw [this, div_self h]

/-- … and are zero elsewhere. -/
theorem fractions_zero (k : Kind) (r : Rec Rat) (h : total r = 0) : massOf k (fractions r) = 0 := by
  unfold fractions; rw [if_pos h]; rfl

end fractions

/-! ### Non-vacuity and the limits of the statement -/

def dieselF : Kind := ⟨0, 1, 2⟩
def gasF : Kind := ⟨2, 1, 2⟩
def gasBioEU : Kind := ⟨2, 2, 1⟩

/-- The hypotheses are satisfiable, on operands that overlap in one kind and differ in another. -/
example : WellFormed ([(dieselF, (3:Rat)), (gasF, 5)] : Rec Rat) ∧
    WellFormed ([(gasF, (7:Rat)), (gasBioEU, 11)] : Rec Rat) ∧
    add [(dieselF, (3:Rat)), (gasF, 5)] [(gasF, 7), (gasBioEU, 11)]
      = [(dieselF, 3), (gasF, 12), (gasBioEU, 11)] := by
  refine ⟨by decide, by decide, by decide +kernel⟩

/-- Well-formedness of the *left* operand is needed: with a kind listed twice on the left the
implementation's matching adds the right-hand mass twice (3+4 and 5+4: total 16, not 12). -/
example : total (add [(dieselF, (3:Rat)), (dieselF, 5)] [(dieselF, 4)]) = 16 := by decide +kernel

end Feems.Props.C18
