/-
C02 — bus grouping equals connectivity through closed bus-tie breakers.
-/
import FeemsProofs.Prelude
import FeemsModel.Model.Bus

set_option linter.unusedSimpArgs false
set_option linter.unusedVariables false

namespace Feems.Props.C02
open Feems Feems.Bus

/-- `x` and `y` are the two ends of a closed breaker of the list. -/
def Edge (brs : List Breaker) (x y : Nat) : Prop :=
  ∃ br ∈ brs, br.closed = true ∧ br.a = x ∧ br.b = y

/-- A chain of closed bus-tie breakers links `x` and `y` (in either direction of each breaker). -/
def Conn (brs : List Breaker) : Nat → Nat → Prop := Relation.EqvGen (Edge brs)

theorem conn_mono {brs brs' : List Breaker} (h : ∀ x y, Edge brs x y → Edge brs' x y) {x y : Nat}
    (hc : Conn brs x y) : Conn brs' x y := by
  induction hc with
  | rel x y hxy => exact .rel _ _ (h _ _ hxy)
  | refl x => exact .refl _
  | symm x y _ ih => exact .symm _ _ ih
  | trans x y z _ _ ih1 ih2 => exact .trans _ _ _ ih1 ih2

/-- Labels are exactly the connectivity classes of the processed breakers. -/
def Inv (lab : Nat → Nat) (brs : List Breaker) : Prop := ∀ x y, lab x = lab y ↔ Conn brs x y

theorem step_inv (lab : Nat → Nat) (brs : List Breaker) (br : Breaker) (h : Inv lab brs) :
    Inv (mergeStep lab br) (brs ++ [br]) := by
  intro x y
  unfold mergeStep
  by_cases hc : br.closed = true
  · rw [if_pos hc]
    have hedge : Conn (brs ++ [br]) br.a br.b := .rel _ _ ⟨br, by simp, hc, rfl, rfl⟩
    have hmono : ∀ {u v}, Conn brs u v → Conn (brs ++ [br]) u v := fun huv =>
      conn_mono (fun x y ⟨b, hb, h1⟩ => ⟨b, by simp [hb], h1⟩) huv
    constructor
    · intro hxy
      unfold relabel at hxy
      by_cases hx : lab x = lab br.b <;> by_cases hy : lab y = lab br.b
      · exact hmono ((h x y).mp (hx.trans hy.symm))
      · rw [if_pos hx, if_neg hy] at hxy
        -- x ~ b ~ a ~ y
        exact .trans _ _ _ (hmono ((h _ _).mp hx))
          (.trans _ _ _ (.symm _ _ hedge) (hmono ((h _ _).mp hxy)))
      · rw [if_neg hx, if_pos hy] at hxy
        exact .trans _ _ _ (hmono ((h _ _).mp hxy))
          (.trans _ _ _ hedge (hmono ((h _ _).mp hy.symm)))
      · rw [if_neg hx, if_neg hy] at hxy
        exact hmono ((h x y).mp hxy)
    · intro hxy
      induction hxy with
      | rel x y hxy =>
        obtain ⟨b, hb, hcl, ha, hb'⟩ := hxy
        rcases List.mem_append.mp hb with hb | hb
        · have : lab x = lab y := (h x y).mpr (.rel _ _ ⟨b, hb, hcl, ha, hb'⟩)
          simp [relabel, this]
        · have : b = br := by simpa using hb
          subst this; subst ha; subst hb'
          unfold relabel
          rw [if_pos rfl]
          by_cases hab : lab b.a = lab b.b
          · rw [if_pos hab]
          · rw [if_neg hab]
      | refl x => rfl
      | symm x y _ ih => exact ih.symm
      | trans x y z _ _ ih1 ih2 => exact ih1.trans ih2
  · rw [if_neg hc]
    have hiff : ∀ u v, Edge (brs ++ [br]) u v ↔ Edge brs u v := by
      intro u v
      constructor
      · rintro ⟨b, hb, hcl, h1⟩
        rcases List.mem_append.mp hb with hb | hb
        · exact ⟨b, hb, hcl, h1⟩
        · have : b = br := by simpa using hb
          subst this; exact absurd hcl hc
      · rintro ⟨b, hb, h1⟩; exact ⟨b, by simp [hb], h1⟩
    rw [h x y]
    exact ⟨conn_mono (fun u v => (hiff u v).mpr), conn_mono (fun u v => (hiff u v).mp)⟩

theorem fold_inv (suf : List Breaker) : ∀ (pre : List Breaker) (lab : Nat → Nat), Inv lab pre →
    Inv (suf.foldl mergeStep lab) (pre ++ suf) := by
  induction suf with
  | nil => intro pre lab h; simpa using h
  | cons br suf ih =>
    intro pre lab h
    have := ih (pre ++ [br]) (mergeStep lab br) (step_inv lab pre br h)
    simpa [List.append_assoc] using this

theorem conn_nil (x y : Nat) : Conn [] x y ↔ x = y := by
  constructor
  · intro h
    induction h with
    | rel x y hxy => obtain ⟨b, hb, _⟩ := hxy; cases hb
    | refl x => rfl
    | symm x y _ ih => exact ih.symm
    | trans x y z _ _ ih1 ih2 => exact ih1.trans ih2
  · rintro rfl; exact .refl _

/-- **Grouping = connectivity.** Two switchboards get the same label exactly when a chain of
closed breakers links them — for every set of breakers (chains, stars, rings, parallel breakers,
disconnected pairs), in any declaration order and orientation, from any injective initial
labelling. -/
theorem grouping_from (init : Nat → Nat) (hinj : Function.Injective init) (brs : List Breaker)
    (x y : Nat) : groupFrom init brs x = groupFrom init brs y ↔ Conn brs x y := by
  have h0 : Inv init [] := fun x y => by rw [conn_nil]; exact hinj.eq_iff
  have := fold_inv brs [] init h0
  simpa [groupFrom] using this x y

theorem grouping (brs : List Breaker) (x y : Nat) : group brs x = group brs y ↔ Conn brs x y :=
  grouping_from id Function.injective_id brs x y

/-- The grouping does not depend on the order in which the breakers were declared … -/
theorem order_free {brs brs' : List Breaker} (h : brs.Perm brs') (x y : Nat) :
    group brs x = group brs y ↔ group brs' x = group brs' y := by
  rw [grouping, grouping]
  constructor
  · exact conn_mono (fun u v ⟨b, hb, h1⟩ => ⟨b, h.mem_iff.mp hb, h1⟩)
  · exact conn_mono (fun u v ⟨b, hb, h1⟩ => ⟨b, h.mem_iff.mpr hb, h1⟩)

def flip (br : Breaker) : Breaker := ⟨br.b, br.a, br.closed⟩

/-- … nor on their orientation: any subset of the breakers may be declared the other way round. -/
theorem orientation_free (brs : List Breaker) (which : Breaker → Bool) (x y : Nat) :
    group brs x = group brs y ↔
      group (brs.map fun br => if which br then flip br else br) x =
      group (brs.map fun br => if which br then flip br else br) y := by
  rw [grouping, grouping]
  have aux : ∀ (l l' : List Breaker),
      (∀ u v, Edge l u v → Edge l' u v ∨ Edge l' v u) → ∀ {u v}, Conn l u v → Conn l' u v := by
    intro l l' hl u v huv
    induction huv with
    | rel x y hxy =>
      rcases hl _ _ hxy with h | h
      · exact .rel _ _ h
      · exact .symm _ _ (.rel _ _ h)
    | refl x => exact .refl _
    | symm x y _ ih => exact .symm _ _ ih
    | trans x y z _ _ ih1 ih2 => exact .trans _ _ _ ih1 ih2
  constructor
  · apply aux
    rintro u v ⟨b, hb, hcl, ha, hb'⟩
    by_cases hw : which b = true
    · right; exact ⟨flip b, List.mem_map.mpr ⟨b, hb, by simp [hw]⟩, hcl, hb', ha⟩
    · left; exact ⟨b, List.mem_map.mpr ⟨b, hb, by simp [hw]⟩, hcl, ha, hb'⟩
  · apply aux
    rintro u v ⟨b', hb', hcl, ha, hb''⟩
    obtain ⟨b, hb, rfl⟩ := List.mem_map.mp hb'
    by_cases hw : which b = true
    · simp only [hw, if_true] at hcl ha hb''
      right; exact ⟨b, hb, hcl, hb'', ha⟩
    · simp only [hw] at hcl ha hb''
      left; exact ⟨b, hb, hcl, ha, hb''⟩

/-! ### The number of buses -/

theorem mem_distinct (l : List Nat) (x : Nat) : x ∈ distinct l ↔ x ∈ l := by
  induction l with
  | nil => simp [distinct]
  | cons a l ih =>
    simp only [distinct, List.mem_cons, List.mem_filter, ih, decide_eq_true_eq, ne_eq]
    constructor
    · rintro (h | ⟨h, _⟩)
      · exact Or.inl h
      · exact Or.inr h
    · rintro (h | h)
      · exact Or.inl h
      · by_cases hx : x = a
        · exact Or.inl hx
        · exact Or.inr ⟨h, hx⟩

theorem nodup_distinct (l : List Nat) : (distinct l).Nodup := by
  induction l with
  | nil => simp [distinct]
  | cons a l ih =>
    simp only [distinct, List.nodup_cons, List.mem_filter, decide_eq_true_eq, ne_eq, not_and,
      not_not]
    exact ⟨fun _ => trivial, ih.filter _⟩

/-- **Bus count.** The reported number of buses is the number of connectivity groups: there is a
list of that many switchboards, pairwise not connected, such that every switchboard is connected
to one of them. -/
theorem count (swbs : List Nat) (brs : List Breaker) :
    ∃ reps : List Nat, reps.length = noBus swbs (group brs) ∧ (∀ r ∈ reps, r ∈ swbs) ∧
      reps.Pairwise (fun r r' => ¬ Conn brs r r') ∧ ∀ s ∈ swbs, ∃ r ∈ reps, Conn brs s r := by
  let lab := group brs
  let labels := distinct (swbs.map lab)
  let pick : Nat → Nat := fun l => (swbs.find? (fun s => lab s = l)).getD 0
  have hpick : ∀ l ∈ labels, pick l ∈ swbs ∧ lab (pick l) = l := by
    intro l hl
    obtain ⟨s, hs, hsl⟩ := List.mem_map.mp ((mem_distinct _ _).mp hl)
    cases hf : swbs.find? (fun s => lab s = l) with
    | none =>
      have := List.find?_eq_none.mp hf s hs
      simp [hsl] at this
    | some s' =>
      have h1 := List.mem_of_find?_eq_some hf
      have h2 := List.find?_some hf
      simp only [pick, hf, Option.getD_some]
      exact ⟨h1, by simpa using h2⟩
  refine ⟨labels.map pick, by simp [noBus, labels, lab], ?_, ?_, ?_⟩
  · intro r hr
    obtain ⟨l, hl, rfl⟩ := List.mem_map.mp hr
    exact (hpick l hl).1
  · rw [List.pairwise_map]
    have hnd := nodup_distinct (swbs.map lab)
    refine List.Pairwise.imp_of_mem ?_ hnd
    intro l l' hl hl' hne hconn
    have h3 : lab (pick l) = lab (pick l') := (grouping brs _ _).mpr hconn
    rw [(hpick l hl).2, (hpick l' hl').2] at h3
    exact hne h3
  · intro s hs
    have hl : lab s ∈ labels := (mem_distinct _ _).mpr (List.mem_map_of_mem hs)
    exact ⟨pick (lab s), List.mem_map_of_mem hl, (grouping brs _ _).mp (hpick _ hl).2.symm⟩

/-- The consecutive bus numbers preserve the grouping and lie in `1..no_bus`. -/
theorem renumber_iff (swbs : List Nat) (lab : Nat → Nat) (x y : Nat) (hx : x ∈ swbs) (hy : y ∈ swbs) :
    renumber swbs lab x = renumber swbs lab y ↔ lab x = lab y := by
  unfold renumber
  have hx' : lab x ∈ distinct (swbs.map lab) := (mem_distinct _ _).mpr (List.mem_map_of_mem hx)
  have hy' : lab y ∈ distinct (swbs.map lab) := (mem_distinct _ _).mpr (List.mem_map_of_mem hy)
  constructor
  · intro h
    have h' : (distinct (swbs.map lab)).idxOf (lab x) = (distinct (swbs.map lab)).idxOf (lab y) := by omega
    exact (List.idxOf_inj hx').mp h'
  · intro h; rw [h]

theorem renumber_range (swbs : List Nat) (lab : Nat → Nat) (x : Nat) (hx : x ∈ swbs) :
    1 ≤ renumber swbs lab x ∧ renumber swbs lab x ≤ noBus swbs lab := by
  unfold renumber noBus
  have hx' : lab x ∈ distinct (swbs.map lab) := (mem_distinct _ _).mpr (List.mem_map_of_mem hx)
  have := List.idxOf_lt_length_of_mem hx'
  omega

/-- The reported map: same bus number ⇔ connected. -/
theorem busMap_iff (swbs : List Nat) (brs : List Breaker) (x y : Nat) (hx : x ∈ swbs) (hy : y ∈ swbs) :
    renumber swbs (group brs) x = renumber swbs (group brs) y ↔ Conn brs x y := by
  rw [renumber_iff swbs _ x y hx hy, grouping]

/-! ### Every bus number is one the power balance keeps a sum for (D26) -/

theorem distinct_length_le (l : List Nat) : (distinct l).length ≤ l.length := by
  induction l with
  | nil => simp [distinct]
  | cons x xs ih =>
    simp only [distinct, List.length_cons]
    have := List.length_filter_le (fun y => decide (y ≠ x)) (distinct xs)
    omega

theorem noBus_le (swbs : List Nat) (lab : Nat → Nat) : noBus swbs lab ≤ swbs.length := by
  unfold noBus
  have := distinct_length_le (swbs.map lab)
  simpa using this

/-- For every layout, numbering of the switchboards and breaker position, the bus a switchboard is on
has a number in `1..n`: its power can be added to the bus sums. -/
theorem bus_sum_defined (swbs : List Nat) (brs : List Breaker) (s : Nat) (hs : s ∈ swbs) :
    sumDefined swbs (renumber swbs (group brs) s) = true := by
  have h := renumber_range swbs (group brs) s hs
  have h2 := noBus_le swbs (group brs)
  unfold sumDefined
  exact decide_eq_true ⟨h.1, le_trans h.2 h2⟩

/-- A single switchboard is bus 1 whatever its own number … -/
theorem single_bus_is_one (s : Nat) : busMap [s] [] = [(s, 1)] := by
  simp [busMap, renumber, group, groupFrom, distinct]

/-- … whereas the map as found named the bus after the switchboard, for which no sum is kept unless the
switchboard is number 1 (`KeyError` in every power balance). -/
theorem legacy_single_undefined (s : Nat) (h : s ≠ 1) :
    ∀ p ∈ busMapSingleLegacy s, sumDefined [s] p.2 = false := by
  intro p hp
  simp only [busMapSingleLegacy, List.mem_singleton] at hp
  subst hp
  unfold sumDefined
  simp only [List.length_singleton, decide_eq_false_iff_not, not_and]
  omega

example : sumDefined [5] 5 = false ∧ busMap [5] [] = [(5, 1)] ∧
    busMap [3, 7, 20] [⟨20, 3, true⟩] = [(3, 1), (7, 2), (20, 1)] := by decide +kernel

/-! ### A change of breaker status takes effect at exactly the step at which it occurs -/

def isChange (status : List (List Bool)) (t : Nat) : Bool :=
  t = 0 || column status t != column status (t - 1)

theorem filter_le_range (p : Nat → Bool) (n t : Nat) (ht : t < n) :
    ((List.range n).filter p).filter (fun u => decide (u ≤ t)) = (List.range (t + 1)).filter p := by
  induction n with
  | zero => omega
  | succ n ih =>
    rw [List.range_succ, List.filter_append, List.filter_append]
    by_cases htn : t = n
    · subst htn
      have h1 : ((List.range t).filter p).filter (fun u => decide (u ≤ t)) = (List.range t).filter p := by
        apply List.filter_eq_self.mpr
        intro u hu
        have := List.mem_range.mp (List.mem_filter.mp hu).1
        simpa using this.le
      rw [h1, List.range_succ, List.filter_append]
      congr 1
      by_cases hp : p t <;> simp [hp]
    · have htn' : t < n := by omega
      rw [ih htn']
      have : (List.filter p [n]).filter (fun u => decide (u ≤ t)) = [] := by
        by_cases hp : p n <;> simp [hp]; omega
      rw [this, List.append_nil]

theorem periodStart_eq (status : List (List Bool)) (n t : Nat) (ht : t < n) :
    periodStart status n t = (((List.range (t + 1)).filter (isChange status)).getLast?).getD 0 := by
  unfold periodStart changeIdx
  have := filter_le_range (isChange status) n t ht
  unfold isChange at this
  rw [this]; rfl

/-- **Change at step.** The breaker positions used for step `t` are those given for step `t`. -/
theorem change_at_step (status : List (List Bool)) (n t : Nat) (ht : t < n) :
    column status (periodStart status n t) = column status t := by
  rw [periodStart_eq status n t ht]
  clear ht
  induction t with
  | zero => simp [isChange]
  | succ t ih =>
    rw [List.range_succ, List.filter_append]
    by_cases hc : isChange status (t + 1) = true
    · simp [hc]
    · have hc' : isChange status (t + 1) = false := by simpa using hc
      simp only [List.filter_cons, hc', List.filter_nil, Bool.false_eq_true, if_false, List.append_nil]
      rw [ih]
      unfold isChange at hc'
      simp only [Nat.add_eq_zero_iff, one_ne_zero, and_false, decide_false, Bool.false_or,
        Nat.add_sub_cancel, bne_eq_false_iff_eq] at hc'
      exact hc'.symm

/-- … hence the grouping used at step `t` is the connectivity of the breakers closed at `t`. -/
theorem grouping_at_step (ends : List (Nat × Nat)) (status : List (List Bool)) (n t : Nat)
    (ht : t < n) (x y : Nat) :
    group (breakersAt ends status n t) x = group (breakersAt ends status n t) y ↔
      Conn (List.zipWith (fun e c => ⟨e.1, e.2, c⟩) ends (column status t)) x y := by
  unfold breakersAt
  rw [change_at_step status n t ht]
  exact grouping _ x y

/-! ### Non-vacuity, and the merge map as found (D1) -/

/-- A ring of three with one breaker open: still one bus. -/
example : (busMap [1, 2, 3] [⟨1, 2, true⟩, ⟨2, 3, false⟩, ⟨3, 1, true⟩]) = [(1, 1), (2, 1), (3, 1)] ∧
    noBus [1, 2, 3] (group [⟨1, 2, true⟩, ⟨2, 3, false⟩, ⟨3, 1, true⟩]) = 1 := by decide

/-- Before the repair: a chain declared out of order splits switchboard 3 from {1, 2} … -/
theorem legacy_out_of_order_chain :
    (groupLegacy [1, 2, 3] [⟨2, 3, true⟩, ⟨1, 2, true⟩]).map (fun r => ([1, 2, 3].map r.1, r.2))
      = some ([0, 0, 1], 1) := by decide

/-- … a closed ring reports zero buses … -/
theorem legacy_ring_zero_buses :
    (groupLegacy [1, 2, 3] [⟨1, 2, true⟩, ⟨2, 3, true⟩, ⟨3, 1, true⟩]).map (·.2) = some 0 := by decide

/-- … and joining two merged groups is refused (`NotImplementedError`). -/
theorem legacy_join_groups_refused :
    (groupLegacy [1, 2, 3, 4] [⟨1, 2, true⟩, ⟨3, 4, true⟩, ⟨2, 4, true⟩]).isNone = true := by decide

/-! ### Several breakers set in one call (D92) -/

/-- A refusal changes nothing: the caller's plant keeps the positions it had (there is no state to return). -/
theorem setStatus_refusal_is_total (cur : List (List Bool)) (ups : List (Nat × List Bool))
    (h : setStatus cur ups = none) : ¬ (ups.all fun u => rowOk (callLength ups) u.2) = true := by
  intro hall; simp [setStatus, hall] at h

/-- Accepted calls set every row they name, in the order given. -/
theorem setStatus_accepted (cur : List (List Bool)) (ups : List (Nat × List Bool))
    (h : (ups.all fun u => rowOk (callLength ups) u.2) = true) : setStatus cur ups = some (ups.foldl assign cur) := by
  simp [setStatus, h]

/-- A breaker that is not operated (one value) next to an operated one (a series) is accepted in either order … -/
example : setStatus [[true], [true]] [(1, [true, false, false, true]), (2, [false])] =
      some [[true, false, false, true], [false]] ∧
    setStatus [[true], [true]] [(2, [false]), (1, [true, false, false, true])] =
      some [[true, false, false, true], [false]] := by decide

/-- … as found it was refused, and the refusal left breaker 1 with the new series and breaker 2 with its old position:
a state nobody asked for. -/
theorem setStatus_legacy_half_updated :
    setStatusLegacy [[true], [true]] [(1, [true, false, false, true]), (2, [false])] =
      ([[true, false, false, true], [true]], false) := by decide

/-- Series of two different lengths are refused, and nothing is set. -/
example : setStatus [[true], [true]] [(1, [true, false]), (2, [false, true, true])] = none := by decide

end Feems.Props.C02
