/-
C09 — NOx and curve-based emissions follow the IMO limits and given curves.
The constants are those *generated from `feems/constant.py`* (`Generated/NoxConstants.lean`);
`values` pins them to Regulation 13, and the laws are proved from the pinned values over `ℝ`.
-/
import Mathlib.Analysis.SpecialFunctions.Pow.Real
import Mathlib.Analysis.SpecialFunctions.Pow.Continuity
import FeemsProofs.Prelude
import FeemsModel.Model.Nox

set_option linter.unusedSimpArgs false
set_option linter.unusedVariables false

namespace Feems.Props.C09
open Feems Feems.Nox Feems.Generated.Nox

/-- **Values.** 17.0 / 14.4 / 3.4 g/kWh up to 130 rpm; 45·n^-0.2, 44·n^-0.23, 9·n^-0.2 above. -/
theorem values :
    slowValue 1 = 17 ∧ slowValue 2 = 72 / 5 ∧ slowValue 3 = 17 / 5 ∧ maxSlowRpm = 130 ∧
    mediumFactor 1 = 45 ∧ mediumExponent 1 = -1 / 5 ∧ mediumFactor 2 = 44 ∧ mediumExponent 2 = -23 / 100 ∧
    mediumFactor 3 = 9 ∧ mediumExponent 3 = -1 / 5 := by
  decide +kernel

/-- The limit as the code computes it, over the reals. -/
noncomputable def limit (tier : Nat) (n : ℝ) : ℝ :=
  if ((maxSlowRpm : ℚ) : ℝ) < n then ((mediumFactor tier : ℚ) : ℝ) * n ^ ((mediumExponent tier : ℚ) : ℝ)
  else ((slowValue tier : ℚ) : ℝ)

theorem limit1 (n : ℝ) : limit 1 n = if 130 < n then 45 * n ^ (-(1 : ℝ) / 5) else 17 := by
  obtain ⟨h1, _, _, h4, h5, h6, _⟩ := values
  unfold limit; rw [h1, h4, h5, h6]; push_cast; rfl

theorem limit2 (n : ℝ) : limit 2 n = if 130 < n then 44 * n ^ (-(23 : ℝ) / 100) else 72 / 5 := by
  obtain ⟨_, h2, _, h4, _, _, h7, h8, _⟩ := values
  unfold limit; rw [h2, h4, h7, h8]; push_cast; rfl

theorem limit3 (n : ℝ) : limit 3 n = if 130 < n then 9 * n ^ (-(1 : ℝ) / 5) else 17 / 5 := by
  obtain ⟨_, _, h3, h4, _, _, _, _, h9, h10⟩ := values
  unfold limit; rw [h3, h4, h9, h10]; push_cast; rfl

/-! ### Bounds on `a · n^(-p/q)` from integer-power certificates -/

theorem rpow_root_pow (n : ℝ) (hn : 0 < n) (p q : ℕ) (hq : 0 < q) : (n ^ ((p : ℝ) / q)) ^ q = n ^ p := by
  rw [← Real.rpow_natCast, ← Real.rpow_mul hn.le]
  have : (p : ℝ) / q * q = p := by field_simp
  rw [this, Real.rpow_natCast]

theorem upper (a c n : ℝ) (p q : ℕ) (hq : 0 < q) (ha : 0 ≤ a) (hc : 0 < c) (hn : 0 < n)
    (h : a ^ q ≤ c ^ q * n ^ p) : a * n ^ (-(p : ℝ) / q) ≤ c := by
  have hpos : 0 < n ^ ((p : ℝ) / q) := Real.rpow_pos_of_pos hn _
  rw [neg_div, Real.rpow_neg hn.le, ← div_eq_mul_inv, div_le_iff₀ hpos]
  have h2 : a ^ q ≤ (c * n ^ ((p : ℝ) / q)) ^ q := by rw [mul_pow, rpow_root_pow n hn p q hq]; exact h
  exact le_of_pow_le_pow_left₀ (Nat.pos_iff_ne_zero.mp hq) (by positivity) h2

theorem lower (a c n : ℝ) (p q : ℕ) (hq : 0 < q) (ha : 0 < a) (hc : 0 ≤ c) (hn : 0 < n)
    (h : c ^ q * n ^ p ≤ a ^ q) : c ≤ a * n ^ (-(p : ℝ) / q) := by
  have hpos : 0 < n ^ ((p : ℝ) / q) := Real.rpow_pos_of_pos hn _
  rw [neg_div, Real.rpow_neg hn.le, ← div_eq_mul_inv, le_div_iff₀ hpos]
  have h2 : (c * n ^ ((p : ℝ) / q)) ^ q ≤ a ^ q := by rw [mul_pow, rpow_root_pow n hn p q hq]; exact h
  exact le_of_pow_le_pow_left₀ (Nat.pos_iff_ne_zero.mp hq) ha.le h2

/-- `a · n^b` with `b ≤ 0` does not increase with `n`. -/
theorem medium_antitone (a b n n' : ℝ) (ha : 0 ≤ a) (hb : b ≤ 0) (hn : 0 < n) (h : n ≤ n') :
    a * n' ^ b ≤ a * n ^ b :=
  mul_le_mul_of_nonneg_left (Real.rpow_le_rpow_of_nonpos hn h hb) ha

/-! ### The laws (rated speeds 1 … 2000 rpm) -/

theorem e15 : (-(1 : ℝ) / 5) = -((1 : ℕ) : ℝ) / ((5 : ℕ) : ℝ) := by norm_num
theorem e23 : (-(23 : ℝ) / 100) = -((23 : ℕ) : ℝ) / ((100 : ℕ) : ℝ) := by norm_num

/-- **Positive.** -/
theorem pos (tier : Nat) (ht : tier = 1 ∨ tier = 2 ∨ tier = 3) (n : ℝ) (hn : 0 < n) : 0 < limit tier n := by
  rcases ht with rfl | rfl | rfl
  · rw [limit1]; split
    · exact mul_pos (by norm_num) (Real.rpow_pos_of_pos hn _)
    · norm_num
  · rw [limit2]; split
    · exact mul_pos (by norm_num) (Real.rpow_pos_of_pos hn _)
    · norm_num
  · rw [limit3]; split
    · exact mul_pos (by norm_num) (Real.rpow_pos_of_pos hn _)
    · norm_num

/-- At the slow-speed limit the medium-speed formula is not above the tabulated value … -/
theorem at_130 : 45 * (130 : ℝ) ^ (-(1 : ℝ) / 5) ≤ 17 ∧ 44 * (130 : ℝ) ^ (-(23 : ℝ) / 100) ≤ 72 / 5 ∧
    9 * (130 : ℝ) ^ (-(1 : ℝ) / 5) ≤ 17 / 5 := by
  refine ⟨?_, ?_, ?_⟩
  · rw [e15]; exact upper 45 17 130 1 5 (by norm_num) (by norm_num) (by norm_num) (by norm_num) (by norm_num)
  · rw [e23]; exact upper 44 (72 / 5) 130 23 100 (by norm_num) (by norm_num) (by norm_num) (by norm_num) (by norm_num)
  · rw [e15]; exact upper 9 (17 / 5) 130 1 5 (by norm_num) (by norm_num) (by norm_num) (by norm_num) (by norm_num)

theorem antitone_aux (a b c n n' : ℝ) (ha : 0 ≤ a) (hb : b ≤ 0) (h130 : a * (130 : ℝ) ^ b ≤ c)
    (hn : 1 ≤ n) (h : n ≤ n') :
    (if 130 < n' then a * n' ^ b else c) ≤ (if 130 < n then a * n ^ b else c) := by
  have hn0 : 0 < n := by linarith
  by_cases h1 : 130 < n
  · have h2 : 130 < n' := lt_of_lt_of_le h1 h
    rw [if_pos h1, if_pos h2]
    exact medium_antitone a b n n' ha hb hn0 h
  · rw [if_neg h1]
    by_cases h2 : 130 < n'
    · rw [if_pos h2]
      exact le_trans (medium_antitone a b 130 n' ha hb (by norm_num) h2.le) h130
    · rw [if_neg h2]

/-- **Never increases with speed** (also across 130 rpm). -/
theorem antitone (tier : Nat) (ht : tier = 1 ∨ tier = 2 ∨ tier = 3) (n n' : ℝ) (hn : 1 ≤ n) (h : n ≤ n') :
    limit tier n' ≤ limit tier n := by
  rcases ht with rfl | rfl | rfl
  · rw [limit1, limit1]; exact antitone_aux 45 _ 17 n n' (by norm_num) (by norm_num) at_130.1 hn h
  · rw [limit2, limit2]; exact antitone_aux 44 _ (72 / 5) n n' (by norm_num) (by norm_num) at_130.2.1 hn h
  · rw [limit3, limit3]; exact antitone_aux 9 _ (17 / 5) n n' (by norm_num) (by norm_num) at_130.2.2 hn h

/-- **Tier I ≥ Tier II ≥ Tier III** at every speed from 1 to 2000 rpm. -/
theorem tier_order (n : ℝ) (hn : 1 ≤ n) (hn' : n ≤ 2000) : limit 2 n ≤ limit 1 n ∧ limit 3 n ≤ limit 2 n := by
  have hn0 : 0 < n := by linarith
  rw [limit1, limit2, limit3]
  by_cases h : 130 < n
  · simp only [if_pos h]
    constructor
    · -- 44 n^(-23/100) ≤ 45 n^(-20/100): n^(-3/100) ≤ 1 ≤ 45/44
      have hsplit : n ^ (-(23 : ℝ) / 100) = n ^ (-(1 : ℝ) / 5) * n ^ (-(3 : ℝ) / 100) := by
        rw [← Real.rpow_add hn0]; norm_num
      have hle : n ^ (-(3 : ℝ) / 100) ≤ 1 := Real.rpow_le_one_of_one_le_of_nonpos hn (by norm_num)
      have hp : 0 < n ^ (-(1 : ℝ) / 5) := Real.rpow_pos_of_pos hn0 _
      rw [hsplit]; nlinarith
    · -- 9 n^(-20/100) ≤ 44 n^(-23/100)  ⟸  9/44 ≤ n^(-3/100)  ⟸  (9/44)^100 · n^3 ≤ 1
      have hsplit : n ^ (-(23 : ℝ) / 100) = n ^ (-(1 : ℝ) / 5) * n ^ (-(3 : ℝ) / 100) := by
        rw [← Real.rpow_add hn0]; norm_num
      have hp : 0 < n ^ (-(1 : ℝ) / 5) := Real.rpow_pos_of_pos hn0 _
      have hlow : (9 : ℝ) / 44 ≤ 1 * n ^ (-((3 : ℕ) : ℝ) / ((100 : ℕ) : ℝ)) := by
        apply lower 1 (9 / 44) n 3 100 (by norm_num) (by norm_num) (by norm_num) hn0
        have : n ^ 3 ≤ 2000 ^ 3 := pow_le_pow_left₀ hn0.le hn' 3
        have h9 : ((9 : ℝ) / 44) ^ 100 * 2000 ^ 3 ≤ 1 := by norm_num
        have h0 : (0 : ℝ) ≤ (9 / 44) ^ 100 := by positivity
        calc ((9 : ℝ) / 44) ^ 100 * n ^ 3 ≤ (9 / 44) ^ 100 * 2000 ^ 3 := mul_le_mul_of_nonneg_left this h0
          _ ≤ 1 := h9
          _ = 1 ^ 100 := by norm_num
      have hlow' : (9 : ℝ) / 44 ≤ n ^ (-(3 : ℝ) / 100) := by
        have e : (-(3 : ℝ) / 100) = -((3 : ℕ) : ℝ) / ((100 : ℕ) : ℝ) := by norm_num
        rw [e]; linarith
      rw [hsplit]; nlinarith
  · simp only [if_neg h]; constructor <;> norm_num

/-- **Continuity (partial).** The regulation's rounded constants do not meet exactly at 130 rpm;
the step there is below 0.04 g/kWh for every tier (exact continuity is not claimed). -/
theorem jump_at_130 : 17 - 45 * (130 : ℝ) ^ (-(1 : ℝ) / 5) < 4 / 100 ∧
    72 / 5 - 44 * (130 : ℝ) ^ (-(23 : ℝ) / 100) < 4 / 100 ∧ 17 / 5 - 9 * (130 : ℝ) ^ (-(1 : ℝ) / 5) < 4 / 100 := by
  have l1 : (1697 : ℝ) / 100 ≤ 45 * (130 : ℝ) ^ (-(1 : ℝ) / 5) := by
    rw [e15]; exact lower 45 (1697 / 100) 130 1 5 (by norm_num) (by norm_num) (by norm_num) (by norm_num) (by norm_num)
  have l2 : (14362 : ℝ) / 1000 ≤ 44 * (130 : ℝ) ^ (-(23 : ℝ) / 100) := by
    rw [e23]; exact lower 44 (14362 / 1000) 130 23 100 (by norm_num) (by norm_num) (by norm_num) (by norm_num) (by norm_num)
  have l3 : (339 : ℝ) / 100 ≤ 9 * (130 : ℝ) ^ (-(1 : ℝ) / 5) := by
    rw [e15]; exact lower 9 (339 / 100) 130 1 5 (by norm_num) (by norm_num) (by norm_num) (by norm_num) (by norm_num)
  refine ⟨by linarith, by linarith, by linarith⟩

/-- Away from 130 rpm the limit is continuous: constant below, a continuous power law above. -/
theorem continuous_above (a b : ℝ) : ContinuousOn (fun n : ℝ => a * n ^ b) (Set.Ioi 0) := by
  apply ContinuousOn.mul continuousOn_const
  intro x hx
  exact (Real.continuousAt_rpow_const x b (Or.inl (ne_of_gt hx))).continuousWithinAt

/-! ### Mass from the limit or a curve -/

/-- NOx mass = limit × brake energy: `g/kWh · Σ P·dt [kJ] / 3600 / 1000` kg; the same with the
value of a curve at the current load for any species given as a curve (per step: `Engine.speciesRate`). -/
theorem mass_formula (g : Rat) (ps dts : List Rat) : massKg g ps dts = g * (dot ps dts / 3600) / 1000 := by
  unfold massKg; ring

end Feems.Props.C09
