import FeemsProofs.Prelude
import FeemsModel.Model.Pms

set_option linter.unusedSimpArgs false
set_option linter.unusedVariables false

namespace Feems.Pms

/-! ### The tuple order is a total preorder -/

theorem patLe_refl (p : Pat) : patLe p p = true := by
  induction p with
  | nil => rfl
  | cons a p ih => simp [patLe, ih]

theorem patLe_total (p q : Pat) : patLe p q = true ∨ patLe q p = true := by
  induction p generalizing q with
  | nil => left; rfl
  | cons a p ih =>
    cases q with
    | nil => right; rfl
    | cons b q =>
      by_cases h : a = b
      · subst h; simpa [patLe] using ih q
      · have h' : ¬ b = a := fun x => h x.symm
        cases a <;> cases b <;> simp_all [patLe]

theorem patLe_trans (p q r : Pat) (h1 : patLe p q = true) (h2 : patLe q r = true) : patLe p r = true := by
  induction p generalizing q r with
  | nil => rfl
  | cons a p ih =>
    cases q with
    | nil => simp [patLe] at h1
    | cons b q =>
      cases r with
      | nil => simp [patLe] at h2
      | cons c r =>
        cases a <;> cases b <;> cases c <;> simp_all [patLe]
        all_goals exact ih _ _ h1 h2

theorem entryLe_total (a b : Entry) : (entryLe a b || entryLe b a) = true := by
  unfold entryLe
  rcases lt_trichotomy a.1 b.1 with h | h | h
  · simp [h]
  · rcases patLe_total a.2 b.2 with h' | h' <;> simp [h, h']
  · simp [h]

theorem entryLe_trans (a b c : Entry) (h1 : entryLe a b = true) (h2 : entryLe b c = true) :
    entryLe a c = true := by
  unfold entryLe at *
  simp only [Bool.or_eq_true, Bool.and_eq_true, decide_eq_true_eq] at *
  rcases h1 with h1 | ⟨h1, p1⟩ <;> rcases h2 with h2 | ⟨h2, p2⟩
  · left; exact lt_trans h1 h2
  · left; rw [← h2]; exact h1
  · left; rw [h1]; exact h2
  · right; exact ⟨h1.trans h2, patLe_trans _ _ _ p1 p2⟩

theorem entryLe_load {a b : Entry} (h : entryLe a b = true) : a.1 ≤ b.1 := by
  unfold entryLe at h
  simp only [Bool.or_eq_true, Bool.and_eq_true, decide_eq_true_eq] at h
  rcases h with h | ⟨h, _⟩
  · exact le_of_lt h
  · exact le_of_eq h

/-- Entries in ascending order of load. -/
def Asc (S : List Entry) : Prop := S.Pairwise (fun a b => a.1 ≤ b.1)

theorem sortedEntries_asc (rs : List Rat) (f : Rat) : Asc (sortedEntries rs f) := by
  unfold Asc sortedEntries
  exact (List.pairwise_mergeSort entryLe_trans entryLe_total _).imp entryLe_load

theorem sortedEntries_perm (rs : List Rat) (f : Rat) : (sortedEntries rs f).Perm (entries rs f) :=
  List.mergeSort_perm _ _

theorem mem_sortedEntries {rs : List Rat} {f : Rat} {e : Entry} :
    e ∈ sortedEntries rs f ↔ e ∈ entries rs f := (sortedEntries_perm rs f).mem_iff

/-! ### The walk over the sorted entries -/

theorem pickFrom_all_above (S : List Entry) (L : Rat) (cur : Pat) (h : ∀ e ∈ S, L < e.1) :
    pickFrom S L cur = cur := by
  induction S generalizing cur with
  | nil => rfl
  | cons a S ih =>
    cases S with
    | nil => rfl
    | cons b rest =>
      have ha : ¬ a.1 ≤ L := not_le.mpr (h a (by simp))
      simp only [pickFrom, ha, if_false]
      exact ih cur (fun e he => h e (List.mem_cons_of_mem _ he))

/-- Pattern reached by the walk: the first later entry whose load exceeds `L`, else the last. -/
def target (a : Entry) (rest : List Entry) (L : Rat) : Pat :=
  match rest.find? (fun e => decide (L < e.1)) with
  | some e => e.2
  | none => ((a :: rest).getLast (by simp)).2

theorem pickFrom_eq_target (a : Entry) (rest : List Entry) (L : Rat) (hs : Asc (a :: rest))
    (ha : a.1 ≤ L) : pickFrom (a :: rest) L a.2 = target a rest L := by
  induction rest generalizing a with
  | nil => simp [pickFrom, target]
  | cons b rest ih =>
    have hs' : Asc (b :: rest) := (List.pairwise_cons.mp hs).2
    simp only [pickFrom, ha, if_true]
    by_cases hb : b.1 ≤ L
    · rw [ih b hs' hb]
      unfold target
      have : ¬ L < b.1 := not_lt.mpr hb
      simp [List.find?_cons, this]
    · have hb' : L < b.1 := not_le.mp hb
      rw [pickFrom_all_above (b :: rest) L b.2]
      · unfold target; simp [List.find?_cons, hb']
      · intro e he
        rcases List.mem_cons.mp he with rfl | he
        · exact hb'
        · exact lt_of_lt_of_le hb' ((List.pairwise_cons.mp hs').1 e he)

end Feems.Pms

namespace Feems.Pms

/-! ### Patterns, capacities, entries -/

theorem mem_allPatterns (n : Nat) (p : Pat) : p ∈ allPatterns n ↔ p.length = n := by
  induction n generalizing p with
  | zero => simp [allPatterns]
  | succ n ih =>
    simp only [allPatterns, List.mem_append, List.mem_map]
    constructor
    · rintro (⟨q, hq, rfl⟩ | ⟨q, hq, rfl⟩) <;> simp [(ih q).mp hq]
    · intro h
      cases p with
      | nil => simp at h
      | cons b q =>
        have hq : q ∈ allPatterns n := (ih q).mpr (by simpa using h)
        cases b
        · exact Or.inl ⟨q, hq, rfl⟩
        · exact Or.inr ⟨q, hq, rfl⟩

theorem allPatterns_ne_nil (n : Nat) : allPatterns n ≠ [] := by
  intro h
  have : List.replicate n false ∈ allPatterns n := (mem_allPatterns n _).mpr (by simp)
  rw [h] at this; cases this

theorem mem_entries {rs : List Rat} {f : Rat} {e : Entry} :
    e ∈ entries rs f ↔ e.2.length = rs.length ∧ e.1 = f * cap rs e.2 := by
  unfold entries
  simp only [List.mem_map, mem_allPatterns]
  constructor
  · rintro ⟨p, hp, rfl⟩; exact ⟨hp, rfl⟩
  · rintro ⟨h1, h2⟩; exact ⟨e.2, h1, by rw [← h2]⟩

def allOn (n : Nat) : Pat := List.replicate n true
def allOff (n : Nat) : Pat := List.replicate n false

/-- Plant capacity: every source on. -/
def capAll (rs : List Rat) : Rat := rsum rs

theorem cap_allOn (rs : List Rat) : cap rs (allOn rs.length) = capAll rs := by
  induction rs with
  | nil => rfl
  | cons r rs ih => simp [allOn, List.replicate_succ, cap, capAll] at *; rw [ih]

theorem cap_nonneg (rs : List Rat) (p : Pat) (hr : ∀ r ∈ rs, 0 < r) : 0 ≤ cap rs p := by
  induction rs generalizing p with
  | nil => cases p <;> simp [cap]
  | cons r rs ih =>
    cases p with
    | nil => simp [cap]
    | cons b p =>
      have h1 := ih p (fun x hx => hr x (List.mem_cons_of_mem _ hx))
      have h2 := hr r (by simp)
      cases b <;> simp [cap] <;> linarith

theorem cap_le_capAll (rs : List Rat) (p : Pat) (hr : ∀ r ∈ rs, 0 < r) : cap rs p ≤ capAll rs := by
  induction rs generalizing p with
  | nil => cases p <;> simp [cap, capAll]
  | cons r rs ih =>
    cases p with
    | nil =>
      have := cap_nonneg (r :: rs) (allOn (r :: rs).length) hr
      rw [cap_allOn] at this; simpa [cap] using this
    | cons b p =>
      have h1 := ih p (fun x hx => hr x (List.mem_cons_of_mem _ hx))
      have h2 := hr r (by simp)
      cases b <;> simp [cap, capAll] at * <;> linarith

/-- With positive ratings only the all-off pattern has no capacity. -/
theorem cap_pos_of_some_on (rs : List Rat) (p : Pat) (hr : ∀ r ∈ rs, 0 < r) (hl : p.length = rs.length)
    (hon : true ∈ p) : 0 < cap rs p := by
  induction rs generalizing p with
  | nil => cases p <;> simp at hl hon
  | cons r rs ih =>
    cases p with
    | nil => simp at hon
    | cons b p =>
      have hr' : ∀ x ∈ rs, 0 < x := fun x hx => hr x (List.mem_cons_of_mem _ hx)
      have h2 := hr r (by simp)
      cases b
      · have : true ∈ p := by simpa using hon
        simpa [cap] using ih p hr' (by simpa using hl) this
      · have := cap_nonneg rs p hr'
        simp [cap]; linarith

theorem sortedEntries_ne_nil (rs : List Rat) (f : Rat) : sortedEntries rs f ≠ [] := by
  intro h
  have hp := sortedEntries_perm rs f
  rw [h] at hp
  have := hp.symm.eq_nil
  unfold entries at this
  exact allPatterns_ne_nil _ (List.map_eq_nil_iff.mp this)

/-! ### Where the walk ends -/

/-- Either the pick is the first entry after the head whose load exceeds `L' = max L head`, or no
such entry exists and the pick is the last entry. -/
theorem pick_spec (rs : List Rat) (f L : Rat) :
    ∃ a rest, sortedEntries rs f = a :: rest ∧
      ((∃ pre x suf, rest = pre ++ x :: suf ∧ (∀ e ∈ pre, e.1 ≤ max L a.1) ∧ max L a.1 < x.1 ∧
          pick rs f L = x.2) ∨
       ((∀ e ∈ rest, e.1 ≤ max L a.1) ∧ pick rs f L = ((a :: rest).getLast (by simp)).2)) := by
  cases hS : sortedEntries rs f with
  | nil => exact absurd hS (sortedEntries_ne_nil rs f)
  | cons a rest =>
    refine ⟨a, rest, rfl, ?_⟩
    have hasc : Asc (a :: rest) := hS ▸ sortedEntries_asc rs f
    have hp : pick rs f L = target a rest (max L a.1) := by
      unfold pick; rw [hS]
      exact pickFrom_eq_target a rest _ hasc (le_max_right _ _)
    rw [hp]; unfold target
    cases hf : rest.find? (fun e => decide (max L a.1 < e.1)) with
    | some x =>
      left
      obtain ⟨hx, pre, suf, hrest, hpre⟩ := List.find?_eq_some_iff_append.mp hf
      refine ⟨pre, x, suf, hrest, ?_, by simpa using hx, rfl⟩
      intro e he
      have := hpre e he
      simp only [Bool.not_eq_eq_eq_not, Bool.not_true, decide_eq_false_iff_not, not_lt] at this
      exact this
    | none =>
      right
      refine ⟨?_, rfl⟩
      intro e he
      have := (List.find?_eq_none.mp hf) e he
      simp only [decide_eq_true_eq, not_lt] at this
      exact this

end Feems.Pms
