/-
Lemmas about the shape-preserving cubic interpolant (`Feems.Pchip`, the model of scipy's
`PchipInterpolator` as FEEMS calls it).  The property theorems built on them are in
`FeemsProofs/CurveProps.lean`.
-/
import FeemsProofs.Prelude
import FeemsModel.Model.Pchip

namespace Feems.Pchip

/-! ### One interval: the cubic in Hermite form -/

theorem hermite_left (x0 x1 y0 y1 d0 d1 : Rat) : hermite x0 x1 y0 y1 d0 d1 x0 = y0 := by
  simp [hermite, h00, h10, h01, h11]

theorem hermite_right (x0 x1 y0 y1 d0 d1 : Rat) (h : x0 < x1) : hermite x0 x1 y0 y1 d0 d1 x1 = y1 := by
  have : x1 - x0 ≠ 0 := by linarith [sub_pos.mpr h] |> ne_of_gt
  simp [hermite, h00, h10, h01, h11, div_self this]; ring

/-- The cubic written with the rise `y1 - y0` and the end slopes scaled by the interval length. -/
theorem hermite_eq (x0 x1 y0 y1 d0 d1 t : Rat) :
    hermite x0 x1 y0 y1 d0 d1 t =
      y0 + (y1 - y0) * h01 ((t - x0) / (x1 - x0)) + (x1 - x0) * d0 * h10 ((t - x0) / (x1 - x0))
        + (x1 - x0) * d1 * h11 ((t - x0) / (x1 - x0)) := by
  simp only [hermite, h00, h10, h01, h11]; ring

/-- Four polynomial facts on the unit square (the corners of the Fritsch–Carlson box). -/
private theorem corner00 {u v : Rat} (hu : 0 ≤ u) (hu1 : u ≤ 1) (hv : 0 ≤ v) (hv1 : v ≤ 1) :
    0 ≤ 3 * (u + v) - 2 * (u ^ 2 + u * v + v ^ 2) := by
  nlinarith [mul_nonneg hu (sub_nonneg.mpr hu1), mul_nonneg hv (sub_nonneg.mpr hv1),
    mul_nonneg hu (sub_nonneg.mpr hv1), mul_nonneg hv (sub_nonneg.mpr hu1)]
private theorem corner10 (u v : Rat) : 0 ≤ (u ^ 2 + u * v + v ^ 2) - 3 * (u + v) + 3 := by
  nlinarith [sq_nonneg (1 - u), sq_nonneg (1 - v), sq_nonneg ((1 - u) + (1 - v))]
private theorem corner01 (u v : Rat) : 0 ≤ u ^ 2 + u * v + v ^ 2 := by
  nlinarith [sq_nonneg u, sq_nonneg v, sq_nonneg (u + v)]
private theorem corner11 (u v : Rat) : 0 ≤ 4 * (u ^ 2 + u * v + v ^ 2) - 6 * (u + v) + 3 := by
  nlinarith [sq_nonneg (2 * u - 1), sq_nonneg (2 * v - 1), sq_nonneg ((2 * u - 1) + (2 * v - 1))]

/-- The normalised cubic `r·h01 + D0·h10 + D1·h11` never decreases on `[0,1]` when both scaled end
slopes lie in `[0, 3r]` (Fritsch–Carlson's sufficient condition, proved here by algebra alone). -/
theorem unit_monotone {r D0 D1 u v : Rat} (h0 : 0 ≤ D0) (h0' : D0 ≤ 3 * r) (h1 : 0 ≤ D1) (h1' : D1 ≤ 3 * r)
    (hu : 0 ≤ u) (huv : u ≤ v) (hv : v ≤ 1) :
    r * h01 u + D0 * h10 u + D1 * h11 u ≤ r * h01 v + D0 * h10 v + D1 * h11 v := by
  have hr : 0 ≤ r := by linarith
  have hu1 : u ≤ 1 := le_trans huv hv
  have hv0 : 0 ≤ v := le_trans hu huv
  set S := u + v with hS
  set Q := u ^ 2 + u * v + v ^ 2 with hQ
  have key : 0 ≤ D0 * (Q - 2 * S + 1) + D1 * (Q - S) + r * (3 * S - 2 * Q) := by
    have c00 := corner00 hu hu1 hv0 hv
    have c10 := corner10 u v
    have c01 := corner01 u v
    have c11 := corner11 u v
    rcases le_total 0 (Q - 2 * S + 1) with hA | hA <;> rcases le_total 0 (Q - S) with hB | hB
    · nlinarith [mul_nonneg h0 hA, mul_nonneg h1 hB, mul_nonneg hr c00]
    · nlinarith [mul_nonneg h0 hA, mul_nonneg (sub_nonneg.mpr h1') (neg_nonneg.mpr hB), mul_nonneg hr c01]
    · nlinarith [mul_nonneg (sub_nonneg.mpr h0') (neg_nonneg.mpr hA), mul_nonneg h1 hB, mul_nonneg hr c10]
    · nlinarith [mul_nonneg (sub_nonneg.mpr h0') (neg_nonneg.mpr hA), mul_nonneg (sub_nonneg.mpr h1') (neg_nonneg.mpr hB),
        mul_nonneg hr c11]
  have id : (r * h01 v + D0 * h10 v + D1 * h11 v) - (r * h01 u + D0 * h10 u + D1 * h11 u)
      = (v - u) * (D0 * (Q - 2 * S + 1) + D1 * (Q - S) + r * (3 * S - 2 * Q)) := by
    simp only [h01, h10, h11, hS, hQ]; ring
  have := mul_nonneg (sub_nonneg.mpr huv) key
  linarith

theorem unit_at_zero (r D0 D1 : Rat) : r * h01 0 + D0 * h10 0 + D1 * h11 0 = 0 := by simp [h01, h10, h11]
theorem unit_at_one (r D0 D1 : Rat) : r * h01 1 + D0 * h10 1 + D1 * h11 1 = r := by simp [h01, h10, h11]; ring

/-- **One interval, rising data.** With both end slopes in `[0, 3·secant]` the cubic never decreases
between the two points. -/
theorem hermite_monotone {x0 x1 y0 y1 d0 d1 a b : Rat} (hx : x0 < x1)
    (h0 : 0 ≤ d0) (h0' : d0 * (x1 - x0) ≤ 3 * (y1 - y0)) (h1 : 0 ≤ d1) (h1' : d1 * (x1 - x0) ≤ 3 * (y1 - y0))
    (ha : x0 ≤ a) (hab : a ≤ b) (hb : b ≤ x1) :
    hermite x0 x1 y0 y1 d0 d1 a ≤ hermite x0 x1 y0 y1 d0 d1 b := by
  have hh : 0 < x1 - x0 := sub_pos.mpr hx
  rw [hermite_eq, hermite_eq]
  have hu : 0 ≤ (a - x0) / (x1 - x0) := div_nonneg (by linarith) hh.le
  have huv : (a - x0) / (x1 - x0) ≤ (b - x0) / (x1 - x0) := by
    apply div_le_div_of_nonneg_right _ hh.le; linarith
  have hv : (b - x0) / (x1 - x0) ≤ 1 := by rw [div_le_one hh]; linarith
  have := unit_monotone (r := y1 - y0) (D0 := (x1 - x0) * d0) (D1 := (x1 - x0) * d1)
    (mul_nonneg hh.le h0) (by linarith) (mul_nonneg hh.le h1) (by linarith) hu huv hv
  linarith

/-- **One interval, rising data: no overshoot.** The cubic stays between the two point values. -/
theorem hermite_between {x0 x1 y0 y1 d0 d1 t : Rat} (hx : x0 < x1)
    (h0 : 0 ≤ d0) (h0' : d0 * (x1 - x0) ≤ 3 * (y1 - y0)) (h1 : 0 ≤ d1) (h1' : d1 * (x1 - x0) ≤ 3 * (y1 - y0))
    (ha : x0 ≤ t) (hb : t ≤ x1) :
    y0 ≤ hermite x0 x1 y0 y1 d0 d1 t ∧ hermite x0 x1 y0 y1 d0 d1 t ≤ y1 := by
  have l := hermite_monotone hx h0 h0' h1 h1' (le_refl x0) ha hb
  have r := hermite_monotone hx h0 h0' h1 h1' ha hb (le_refl x1)
  rw [hermite_left] at l; rw [hermite_right _ _ _ _ _ _ hx] at r
  exact ⟨l, r⟩

/-- The cubic of the mirrored data is the mirror image (falling curves reduce to rising ones). -/
theorem hermite_neg (x0 x1 y0 y1 d0 d1 t : Rat) :
    hermite x0 x1 (-y0) (-y1) (-d0) (-d1) t = - hermite x0 x1 y0 y1 d0 d1 t := by
  simp only [hermite]; ring


/-! ### The slopes at the points -/

theorem sgn_neg (r : Rat) : sgn (-r) = - sgn r := by
  unfold sgn
  rcases lt_trichotomy r 0 with h | h | h
  · have : 0 < -r := by linarith
    simp [this, h, not_lt.mpr h.le]
  · simp [h]
  · have : ¬ (0 < -r) := by linarith
    have h' : -r < 0 := by linarith
    simp [this, h, h']

theorem sgn_of_pos {r : Rat} (h : 0 < r) : sgn r = 1 := by simp [sgn, h]
theorem sgn_zero : sgn 0 = 0 := by simp [sgn]
theorem sgn_of_neg {r : Rat} (h : r < 0) : sgn r = -1 := by simp [sgn, h, not_lt.mpr h.le]

theorem sgn_eq_one {r : Rat} (h : sgn r = 1) : 0 < r := by
  unfold sgn at h; split at h
  · assumption
  · split at h <;> simp at h
theorem sgn_eq_zero {r : Rat} (h : sgn r = 0) : r = 0 := by
  unfold sgn at h; split at h
  · simp at h
  · split at h
    · simp at h
    · exact le_antisymm (not_lt.mp ‹¬ 0 < r›) (not_lt.mp ‹¬ r < 0›)

/-- A slope `d` is *in the box* of a secant `m`: it has the secant's sign (or is 0) and at most three
times its size.  With both end slopes in the box of the interval's secant the cubic is monotone on
the interval (`hermite_monotone`). -/
def Box (m d : Rat) : Prop := (0 ≤ m → 0 ≤ d ∧ d ≤ 3 * m) ∧ (m ≤ 0 → 3 * m ≤ d ∧ d ≤ 0)

theorem Box.neg {m d : Rat} (h : Box m d) : Box (-m) (-d) := by
  constructor
  · intro hm; have := h.2 (by linarith); constructor <;> linarith
  · intro hm; have := h.1 (by linarith); constructor <;> linarith

theorem interior_neg (h0 h1 m0 m1 : Rat) : interior h0 h1 (-m0) (-m1) = - interior h0 h1 m0 m1 := by
  unfold interior
  have c : (-sgn m0 ≠ -sgn m1) = (sgn m0 ≠ sgn m1) := by simp
  simp only [sgn_neg, c, neg_eq_zero]
  split
  · simp
  · simp only [div_neg]; rw [← neg_add, div_neg]

theorem edge_neg (h0 h1 m0 m1 : Rat) : edge h0 h1 (-m0) (-m1) = - edge h0 h1 m0 m1 := by
  unfold edge
  have hd : ((2 * h0 + h1) * -m0 - h0 * -m1) / (h0 + h1) = -(((2 * h0 + h1) * m0 - h0 * m1) / (h0 + h1)) := by ring
  have c1 : (-sgn (((2 * h0 + h1) * m0 - h0 * m1) / (h0 + h1)) ≠ -sgn m0)
      = (sgn (((2 * h0 + h1) * m0 - h0 * m1) / (h0 + h1)) ≠ sgn m0) := by simp
  have c2 : (-sgn m0 ≠ -sgn m1) = (sgn m0 ≠ sgn m1) := by simp
  simp only [hd, sgn_neg, c1, c2, rabs_eq_abs, abs_neg]
  split
  · simp
  · split
    · ring
    · rfl

/-- The interior slope, seen from a rising interval on either side. -/
theorem interior_box_pos {h0 h1 m0 m1 : Rat} (hh0 : 0 < h0) (hh1 : 0 < h1) :
    (0 ≤ m0 → 0 ≤ interior h0 h1 m0 m1 ∧ interior h0 h1 m0 m1 ≤ 3 * m0) ∧
    (0 ≤ m1 → 0 ≤ interior h0 h1 m0 m1 ∧ interior h0 h1 m0 m1 ≤ 3 * m1) := by
  unfold interior
  split
  · exact ⟨fun h => ⟨le_refl _, by linarith⟩, fun h => ⟨le_refl _, by linarith⟩⟩
  · rename_i hc
    push Not at hc
    obtain ⟨hs, hm0, hm1⟩ := hc
    have both : (0 < m0 ∧ 0 < m1) ∨ (m0 < 0 ∧ m1 < 0) := by
      rcases lt_or_gt_of_ne hm0 with a | a <;> rcases lt_or_gt_of_ne hm1 with b | b
      · exact Or.inr ⟨a, b⟩
      · rw [sgn_of_neg a, sgn_of_pos b] at hs; simp at hs
      · rw [sgn_of_pos a, sgn_of_neg b] at hs; simp at hs
      · exact Or.inl ⟨a, b⟩
    rcases both with ⟨p0, p1⟩ | ⟨n0, n1⟩
    · have w1 : 0 < 2 * h1 + h0 := by linarith
      have w2 : 0 < h1 + 2 * h0 := by linarith
      have D : 0 < (2 * h1 + h0) / m0 + (h1 + 2 * h0) / m1 := add_pos (div_pos w1 p0) (div_pos w2 p1)
      have e0 : 3 * m0 * ((2 * h1 + h0) / m0 + (h1 + 2 * h0) / m1)
          = 3 * (2 * h1 + h0) + 3 * m0 * ((h1 + 2 * h0) / m1) := by field_simp
      have e1 : 3 * m1 * ((2 * h1 + h0) / m0 + (h1 + 2 * h0) / m1)
          = 3 * m1 * ((2 * h1 + h0) / m0) + 3 * (h1 + 2 * h0) := by field_simp
      have q0 : 0 ≤ 3 * m0 * ((h1 + 2 * h0) / m1) := by positivity
      have q1 : 0 ≤ 3 * m1 * ((2 * h1 + h0) / m0) := by positivity
      refine ⟨fun _ => ⟨by positivity, ?_⟩, fun _ => ⟨by positivity, ?_⟩⟩
      · rw [div_le_iff₀ D, e0]; linarith
      · rw [div_le_iff₀ D, e1]; linarith
    · exact ⟨fun h => absurd h (not_le.mpr n0), fun h => absurd h (not_le.mpr n1)⟩

theorem interior_box {h0 h1 m0 m1 : Rat} (hh0 : 0 < h0) (hh1 : 0 < h1) :
    Box m0 (interior h0 h1 m0 m1) ∧ Box m1 (interior h0 h1 m0 m1) := by
  have p := interior_box_pos (m0 := m0) (m1 := m1) hh0 hh1
  have n := interior_box_pos (m0 := -m0) (m1 := -m1) hh0 hh1
  rw [interior_neg] at n
  refine ⟨⟨p.1, fun h => ?_⟩, ⟨p.2, fun h => ?_⟩⟩
  · have := n.1 (by linarith); constructor <;> linarith
  · have := n.2 (by linarith); constructor <;> linarith

/-- The end slope, seen from a rising end interval (whatever the next interval does). -/
theorem edge_box_pos {h0 h1 m0 m1 : Rat} (hh0 : 0 < h0) (hh1 : 0 < h1) (hm : 0 ≤ m0) :
    0 ≤ edge h0 h1 m0 m1 ∧ edge h0 h1 m0 m1 ≤ 3 * m0 := by
  unfold edge
  have hs : 0 < h0 + h1 := by linarith
  set d := ((2 * h0 + h1) * m0 - h0 * m1) / (h0 + h1) with hd
  have dmul : d * (h0 + h1) = (2 * h0 + h1) * m0 - h0 * m1 := by rw [hd]; field_simp
  simp only []
  split
  · exact ⟨le_refl _, by linarith⟩
  · rename_i hsd
    push Not at hsd
    split
    · exact ⟨by linarith, le_refl _⟩
    · rename_i hc
      have dnn : 0 ≤ d := by
        rcases hm.lt_or_eq with p | z
        · rw [sgn_of_pos p] at hsd; exact (sgn_eq_one hsd).le
        · rw [← z, sgn_zero] at hsd; exact (sgn_eq_zero hsd).ge
      refine ⟨dnn, ?_⟩
      by_cases hss : sgn m0 = sgn m1
      · rcases hm.lt_or_eq with p | z
        · rw [sgn_of_pos p] at hss
          have p1 := sgn_eq_one hss.symm
          have : d * (h0 + h1) ≤ 3 * m0 * (h0 + h1) := by
            rw [dmul]; nlinarith [mul_pos hh0 p1, mul_pos hh0 p, mul_pos hh1 p]
          exact le_of_mul_le_mul_right this hs
        · rw [← z, sgn_zero] at hsd; rw [sgn_eq_zero hsd, ← z]; simp
      · have := not_and.mp hc hss
        rw [rabs_eq_abs, rabs_eq_abs, abs_of_nonneg hm, abs_of_nonneg dnn] at this
        exact not_lt.mp this

theorem edge_box {h0 h1 m0 m1 : Rat} (hh0 : 0 < h0) (hh1 : 0 < h1) : Box m0 (edge h0 h1 m0 m1) := by
  refine ⟨edge_box_pos hh0 hh1, fun h => ?_⟩
  have := edge_box_pos (m0 := -m0) (m1 := -m1) hh0 hh1 (by linarith)
  rw [edge_neg] at this
  constructor <;> linarith


/-! ### The whole curve -/

/-- Abscissae strictly increasing over the `n` points (what the constructor of the interpolant insists on). -/
def StrictOn (n : Nat) (x : Nat → Rat) : Prop := ∀ i, i + 1 < n → x i < x (i + 1)

theorem StrictOn.lt {n : Nat} {x : Nat → Rat} (h : StrictOn n x) {i j : Nat} (hij : i < j) (hj : j < n) : x i < x j := by
  induction j with
  | zero => omega
  | succ j ih =>
    rcases Nat.lt_succ_iff_lt_or_eq.mp hij with l | e
    · exact lt_trans (ih l (by omega)) (h j hj)
    · subst e; exact h i hj

theorem StrictOn.le {n : Nat} {x : Nat → Rat} (h : StrictOn n x) {i j : Nat} (hij : i ≤ j) (hj : j < n) : x i ≤ x j := by
  rcases Nat.lt_or_eq_of_le hij with l | e
  · exact (h.lt l hj).le
  · subst e; exact le_refl _

theorem hk_pos {n : Nat} {x : Nat → Rat} (h : StrictOn n x) {k : Nat} (hk' : k + 1 < n) : 0 < hk x k := by
  unfold hk; linarith [h k hk']

theorem box_self (m : Rat) : Box m m := ⟨fun h => ⟨h, by linarith⟩, fun h => ⟨by linarith, h⟩⟩

/-- **Both end slopes of every interval lie in the box of that interval's secant** — for any data. -/
theorem deriv_box {n : Nat} {x : Nat → Rat} (y : Nat → Rat) (hs : StrictOn n x) {k : Nat} (hkn : k + 1 < n) :
    Box (mk x y k) (deriv n x y k) ∧ Box (mk x y k) (deriv n x y (k + 1)) := by
  unfold deriv
  by_cases h2 : n ≤ 2
  · have : k = 0 := by omega
    subst this; simp only [h2, if_true]; exact ⟨box_self _, box_self _⟩
  · simp only [h2, if_false]
    constructor
    · by_cases k0 : k = 0
      · subst k0; simp only [if_true]
        exact edge_box (hk_pos hs (by omega)) (hk_pos hs (by omega))
      · have kn : ¬ (k + 1 = n) := by omega
        simp only [k0, kn, if_false]
        have := (interior_box (m0 := mk x y (k - 1)) (m1 := mk x y k)
          (hk_pos hs (k := k - 1) (by omega)) (hk_pos hs hkn)).2
        exact this
    · have k0 : ¬ (k + 1 = 0) := by omega
      simp only [k0, if_false]
      by_cases kl : k + 1 + 1 = n
      · simp only [kl, if_true]
        have e : n - 2 = k := by omega
        rw [e]
        exact edge_box (hk_pos hs hkn) (hk_pos hs (k := n - 3) (by omega))
      · simp only [kl, if_false]
        have e : k + 1 - 1 = k := by omega
        rw [e]
        exact (interior_box (m0 := mk x y k) (m1 := mk x y (k + 1)) (hk_pos hs hkn) (hk_pos hs (by omega))).1

theorem locate_le (x : Nat → Rat) (t : Rat) : ∀ top, locate x t top ≤ top
  | 0 => by simp [locate]
  | k + 1 => by
    unfold locate; split
    · exact le_refl _
    · exact Nat.le_succ_of_le (locate_le x t k)

theorem locate_left {x : Nat → Rat} {t : Rat} (h0 : x 0 ≤ t) : ∀ top, x (locate x t top) ≤ t
  | 0 => by simpa [locate] using h0
  | k + 1 => by
    unfold locate; split
    · assumption
    · exact locate_left h0 k

theorem locate_right (x : Nat → Rat) (t : Rat) : ∀ top, locate x t top < top → t < x (locate x t top + 1)
  | 0 => by simp [locate]
  | k + 1 => by
    unfold locate; split
    · intro h; omega
    · rename_i hn
      intro _
      rcases Nat.lt_or_eq_of_le (locate_le x t k) with l | e
      · exact locate_right x t k l
      · rw [e]; exact not_le.mp hn

theorem locate_mono (x : Nat → Rat) {a b : Rat} (hab : a ≤ b) : ∀ top, locate x a top ≤ locate x b top
  | 0 => by simp [locate]
  | k + 1 => by
    unfold locate
    by_cases ha : x (k + 1) ≤ a
    · have hb : x (k + 1) ≤ b := le_trans ha hab
      simp [ha, hb]
    · by_cases hb : x (k + 1) ≤ b
      · simp only [ha, hb, if_true, if_false]; exact Nat.le_succ_of_le (locate_le x a k)
      · simp only [ha, hb, if_false]; exact locate_mono x hab k

theorem locate_knot {n : Nat} {x : Nat → Rat} (hs : StrictOn n x) : ∀ top, top + 1 < n → ∀ k, k ≤ top → locate x (x k) top = k
  | 0, _, k, hk' => by simp [locate]; omega
  | j + 1, hj, k, hk' => by
    unfold locate
    by_cases hc : x (j + 1) ≤ x k
    · simp only [hc, if_true]
      by_contra hne
      have : k < j + 1 := by omega
      exact absurd (hs.lt this (by omega)) (not_lt.mpr hc)
    · simp only [hc, if_false]
      have : k ≠ j + 1 := fun e => hc (by rw [e])
      exact locate_knot hs j (by omega) k (by omega)

theorem locate_top {x : Nat → Rat} {t : Rat} : ∀ top, x top ≤ t → locate x t top = top
  | 0, _ => by simp [locate]
  | k + 1, h => by simp [locate, h]

/-- The located interval contains `t` whenever `t` lies within the range of the points. -/
theorem locate_spec {n : Nat} {x : Nat → Rat} (hn : 2 ≤ n) {t : Rat} (h0 : x 0 ≤ t) (h1 : t ≤ x (n - 1)) :
    locate x t (n - 2) + 1 < n ∧ x (locate x t (n - 2)) ≤ t ∧ t ≤ x (locate x t (n - 2) + 1) := by
  have l := locate_le x t (n - 2)
  refine ⟨by omega, locate_left h0 _, ?_⟩
  rcases Nat.lt_or_eq_of_le l with lt | e
  · exact (locate_right x t _ lt).le
  · rw [e]; have : n - 2 + 1 = n - 1 := by omega
    rw [this]; exact h1

theorem mk_mul_hk {n : Nat} {x : Nat → Rat} (y : Nat → Rat) (hs : StrictOn n x) {k : Nat} (hkn : k + 1 < n) :
    mk x y k * (x (k + 1) - x k) = y (k + 1) - y k := by
  have := hk_pos hs hkn
  unfold mk; unfold hk at *; field_simp

/-- One interval of the curve, rising (`y k ≤ y (k+1)`): the curve never decreases on it. -/
theorem segment_rising {n : Nat} {x : Nat → Rat} (y : Nat → Rat) (hs : StrictOn n x) {k : Nat} (hkn : k + 1 < n)
    (hy : y k ≤ y (k + 1)) {a b : Rat} (ha : x k ≤ a) (hab : a ≤ b) (hb : b ≤ x (k + 1)) :
    hermite (x k) (x (k + 1)) (y k) (y (k + 1)) (deriv n x y k) (deriv n x y (k + 1)) a ≤
    hermite (x k) (x (k + 1)) (y k) (y (k + 1)) (deriv n x y k) (deriv n x y (k + 1)) b := by
  have hx := hs k hkn
  have hpos := hk_pos hs hkn
  have mm := mk_mul_hk y hs hkn
  have m0 : 0 ≤ mk x y k := by
    unfold mk; exact div_nonneg (by linarith) hpos.le
  obtain ⟨b0, b1⟩ := deriv_box y hs hkn
  have := b0.1 m0; have := b1.1 m0
  have hh : 0 < x (k + 1) - x k := by linarith
  refine hermite_monotone hx (by linarith) ?_ (by linarith) ?_ ha hab hb
  · nlinarith
  · nlinarith

/-- One interval of the curve, falling: the curve never increases on it. -/
theorem segment_falling {n : Nat} {x : Nat → Rat} (y : Nat → Rat) (hs : StrictOn n x) {k : Nat} (hkn : k + 1 < n)
    (hy : y (k + 1) ≤ y k) {a b : Rat} (ha : x k ≤ a) (hab : a ≤ b) (hb : b ≤ x (k + 1)) :
    hermite (x k) (x (k + 1)) (y k) (y (k + 1)) (deriv n x y k) (deriv n x y (k + 1)) b ≤
    hermite (x k) (x (k + 1)) (y k) (y (k + 1)) (deriv n x y k) (deriv n x y (k + 1)) a := by
  have hx := hs k hkn
  have hpos := hk_pos hs hkn
  have mm := mk_mul_hk y hs hkn
  have m0 : mk x y k ≤ 0 := by
    unfold mk; exact div_nonpos_of_nonpos_of_nonneg (by linarith) hpos.le
  obtain ⟨b0, b1⟩ := deriv_box y hs hkn
  have := b0.2 m0; have := b1.2 m0
  have hh : 0 < x (k + 1) - x k := by linarith
  have key := hermite_monotone (y0 := - y k) (y1 := - y (k + 1)) (d0 := - deriv n x y k) (d1 := - deriv n x y (k + 1))
    hx (by linarith) (by nlinarith) (by linarith) (by nlinarith) ha hab hb
  rw [hermite_neg, hermite_neg] at key
  linarith


/-! ### The interpolant itself -/

/-- **The curve goes through every given point.** -/
theorem eval_knot {n : Nat} {x : Nat → Rat} (y : Nat → Rat) (hs : StrictOn n x) {k : Nat} (hk' : k < n) (hn : 2 ≤ n) :
    eval n x y (x k) = y k := by
  unfold eval
  by_cases hl : k + 1 < n
  · have : locate x (x k) (n - 2) = k := locate_knot hs (n - 2) (by omega) k (by omega)
    simp only [this]; exact hermite_left _ _ _ _ _ _
  · have e : k = n - 2 + 1 := by omega
    have lt : locate x (x k) (n - 2) = n - 2 := locate_top _ (hs.le (by omega) hk')
    simp only [lt]
    have : x k = x (n - 2 + 1) := by rw [← e]
    rw [this, hermite_right _ _ _ _ _ _ (hs (n - 2) (by omega)), ← e]

/-- **No overshoot, any data.** Inside the range of the points the curve lies between the values of the
two neighbouring points of the interval `t` falls in. -/
theorem eval_between {n : Nat} {x : Nat → Rat} (y : Nat → Rat) (hs : StrictOn n x) (hn : 2 ≤ n) {t : Rat}
    (h0 : x 0 ≤ t) (h1 : t ≤ x (n - 1)) :
    ∃ k, k + 1 < n ∧ x k ≤ t ∧ t ≤ x (k + 1) ∧
      min (y k) (y (k + 1)) ≤ eval n x y t ∧ eval n x y t ≤ max (y k) (y (k + 1)) := by
  obtain ⟨hk', hl, hr⟩ := locate_spec hn h0 h1
  refine ⟨locate x t (n - 2), hk', hl, hr, ?_⟩
  unfold eval
  simp only []
  set k := locate x t (n - 2)
  have hx := hs k hk'
  rcases le_total (y k) (y (k + 1)) with hy | hy
  · have a := segment_rising y hs hk' hy (le_refl _) hl hr
    have b := segment_rising y hs hk' hy hl hr (le_refl _)
    rw [hermite_left] at a; rw [hermite_right _ _ _ _ _ _ hx] at b
    rw [min_eq_left hy, max_eq_right hy]; exact ⟨a, b⟩
  · have a := segment_falling y hs hk' hy (le_refl _) hl hr
    have b := segment_falling y hs hk' hy hl hr (le_refl _)
    rw [hermite_left] at a; rw [hermite_right _ _ _ _ _ _ hx] at b
    rw [min_eq_right hy, max_eq_left hy]; exact ⟨b, a⟩

/-- Values within `[lo, hi]` at the points give a curve within `[lo, hi]` over the whole range of the points. -/
theorem eval_bounds {n : Nat} {x : Nat → Rat} (y : Nat → Rat) (hs : StrictOn n x) (hn : 2 ≤ n) {lo hi : Rat}
    (hy : ∀ i, i < n → lo ≤ y i ∧ y i ≤ hi) {t : Rat} (h0 : x 0 ≤ t) (h1 : t ≤ x (n - 1)) :
    lo ≤ eval n x y t ∧ eval n x y t ≤ hi := by
  obtain ⟨k, hk', _, _, a, b⟩ := eval_between y hs hn h0 h1
  have y0 := hy k (by omega); have y1 := hy (k + 1) hk'
  exact ⟨le_trans (le_min y0.1 y1.1) a, le_trans b (max_le y0.2 y1.2)⟩

theorem rising_le {n : Nat} {y : Nat → Rat} (hy : ∀ i, i + 1 < n → y i ≤ y (i + 1)) {i j : Nat} (hij : i ≤ j) (hj : j < n) :
    y i ≤ y j := by
  induction j with
  | zero => have : i = 0 := by omega
            subst this; exact le_refl _
  | succ j ih =>
    rcases Nat.lt_or_eq_of_le hij with l | e
    · exact le_trans (ih (by omega) (by omega)) (hy j hj)
    · subst e; exact le_refl _

/-- **Shape preservation.** Points that never fall give a curve that never falls, over the whole
range of the points (and symmetrically, `eval_antitone`). -/
theorem eval_monotone {n : Nat} {x : Nat → Rat} (y : Nat → Rat) (hs : StrictOn n x) (hn : 2 ≤ n)
    (hy : ∀ i, i + 1 < n → y i ≤ y (i + 1)) {a b : Rat} (h0 : x 0 ≤ a) (hab : a ≤ b) (h1 : b ≤ x (n - 1)) :
    eval n x y a ≤ eval n x y b := by
  obtain ⟨ka, la, ra⟩ := locate_spec hn h0 (le_trans hab h1)
  obtain ⟨kb, lb, rb⟩ := locate_spec hn (le_trans h0 hab) h1
  have mono := locate_mono x hab (n - 2)
  unfold eval
  simp only []
  rcases Nat.lt_or_eq_of_le mono with lt | e
  · -- different intervals: through the point values in between
    have A := segment_rising y hs ka (hy _ ka) la ra (le_refl _)
    have B := segment_rising y hs kb (hy _ kb) (le_refl _) lb rb
    rw [hermite_right _ _ _ _ _ _ (hs _ ka)] at A
    rw [hermite_left] at B
    exact le_trans A (le_trans (rising_le hy (by omega) (by omega)) B)
  · rw [e] at la ⊢
    exact segment_rising y hs kb (hy _ kb) la hab rb

theorem deriv_neg (n : Nat) (x y : Nat → Rat) (k : Nat) : deriv n x (fun i => - y i) k = - deriv n x y k := by
  have m : ∀ j, mk x (fun i => - y i) j = - mk x y j := by intro j; unfold mk; ring
  unfold deriv
  simp only [m, edge_neg, interior_neg]
  split
  · rfl
  · split
    · rfl
    · split <;> rfl

theorem eval_neg (n : Nat) (x y : Nat → Rat) (t : Rat) : eval n x (fun i => - y i) t = - eval n x y t := by
  unfold eval; simp only [deriv_neg, hermite_neg]

theorem eval_antitone {n : Nat} {x : Nat → Rat} (y : Nat → Rat) (hs : StrictOn n x) (hn : 2 ≤ n)
    (hy : ∀ i, i + 1 < n → y (i + 1) ≤ y i) {a b : Rat} (h0 : x 0 ≤ a) (hab : a ≤ b) (h1 : b ≤ x (n - 1)) :
    eval n x y b ≤ eval n x y a := by
  have := eval_monotone (fun i => - y i) hs hn (fun i hi => by have := hy i hi; show - y i ≤ - y (i + 1); linarith) h0 hab h1
  rw [eval_neg, eval_neg] at this; linarith

/-- Two points: the straight line through them (scipy: "only have two points, use linear interpolation"). -/
theorem eval_two (x y : Nat → Rat) (hx : x 0 < x 1) (t : Rat) :
    eval 2 x y t = y 0 + (y 1 - y 0) / (x 1 - x 0) * (t - x 0) := by
  have h : x 1 - x 0 ≠ 0 := ne_of_gt (sub_pos.mpr hx)
  have l : locate x t (2 - 2) = 0 := rfl
  have d0 : deriv 2 x y 0 = mk x y 0 := by simp [deriv]
  have d1 : deriv 2 x y (0 + 1) = mk x y 0 := by simp [deriv]
  unfold eval
  simp only [l, d0, d1]
  simp only [hermite, mk, hk, h00, h10, h01, h11, Nat.zero_add]
  field_simp; ring

end Feems.Pchip
