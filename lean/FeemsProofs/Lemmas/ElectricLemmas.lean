import FeemsProofs.Prelude
import FeemsModel.Model.ElectricBalance

set_option linter.unusedSimpArgs false
set_option linter.unusedVariables false

namespace Feems.Electric

/-- The documented domain of the sharing settings: a source's fixed share is a fraction of its
rating, a storage / PTI/PTO unit is either balancing (0) or in given-power mode (1). -/
def SrcOK (s : Src) : Prop := 0 ≤ s.share ∧ s.share ≤ 1
def BalOK (b : Bal) : Prop := b.mode = 0 ∨ b.mode = 1
def SwbOK (w : Swb) : Prop := (∀ s ∈ w.sources, SrcOK s) ∧ (∀ b ∈ w.balancers, BalOK b)

theorem ceilAbs_zero : ceilAbs 0 = 0 := by
  have : (0 : Rat).ceil = 0 := Rat.ceil_intCast 0
  simp [ceilAbs, rabs, this]

theorem ceilAbs_unit {x : Rat} (h0 : 0 < x) (h1 : x ≤ 1) : ceilAbs x = 1 := by
  unfold ceilAbs
  have hx : rabs x = x := by unfold rabs; rw [if_pos h0.le]
  rw [hx]
  have a : x.ceil ≤ 1 := Rat.ceil_le_iff.mpr (by simpa using h1)
  have b : (0 : Int) < x.ceil := Rat.lt_ceil_iff.mpr (by simpa using h0)
  have : x.ceil = 1 := by omega
  rw [this]; simp

theorem srcOut_eq (lam : Rat) (s : Src) (h : SrcOK s) :
    srcOut lam s = lam * (s.avail - ceilAbs s.share * s.avail) + s.share * s.avail := by
  unfold srcOut Src.avail
  by_cases h0 : s.share = 0
  · rw [h0, ceilAbs_zero]
    by_cases hs : s.status = true
    · simp [hs, b2r]; ring
    · have : s.status = false := by simpa using hs
      simp [this, b2r]
  · have hpos : 0 < s.share := lt_of_le_of_ne h.1 (Ne.symm h0)
    rw [ceilAbs_unit hpos h.2, if_neg (fun hc => h0 hc.1)]
    ring

theorem balIn_eq (lam : Rat) (b : Bal) (h : BalOK b) :
    balIn lam b = -(lam * (b.avail - ceilAbs b.mode * b.avail)) + b.given * b.mode := by
  unfold balIn Bal.avail
  rcases h with h | h
  · rw [h, ceilAbs_zero]; simp; ring
  · rw [h, ceilAbs_unit (by norm_num) (by norm_num), if_neg (by norm_num)]; ring

theorem rsum_map_srcOut (lam : Rat) (l : List Src) (h : ∀ s ∈ l, SrcOK s) :
    rsum (l.map (srcOut lam)) =
      lam * (rsum (l.map Src.avail) - rsum (l.map fun s => ceilAbs s.share * s.avail))
        + rsum (l.map fun s => s.share * s.avail) := by
  induction l with
  | nil => simp
  | cons s l ih =>
    simp only [List.map_cons, rsum_cons]
    rw [ih (fun x hx => h x (List.mem_cons_of_mem _ hx)), srcOut_eq lam s (h s (by simp))]
    ring

theorem rsum_map_balIn (lam : Rat) (l : List Bal) (h : ∀ b ∈ l, BalOK b) :
    rsum (l.map (balIn lam)) =
      -(lam * (rsum (l.map Bal.avail) - rsum (l.map fun b => ceilAbs b.mode * b.avail)))
        + rsum (l.map fun b => b.given * b.mode) := by
  induction l with
  | nil => simp
  | cons b l ih =>
    simp only [List.map_cons, rsum_cons]
    rw [ih (fun x hx => h x (List.mem_cons_of_mem _ hx)), balIn_eq lam b (h b (by simp))]
    ring

/-- Imbalance of one switchboard at load fraction `lam`. -/
def imbalance (lam : Rat) (w : Swb) : Rat :=
  rsum (w.sources.map (srcOut lam)) - (rsum w.consumers + rsum (w.balancers.map (balIn lam)))

theorem imbalance_eq (lam : Rat) (w : Swb) (h : SwbOK w) :
    imbalance lam w = lam * w.capacity - w.netLoad := by
  unfold imbalance Swb.capacity Swb.netLoad
  rw [rsum_map_srcOut lam _ h.1, rsum_map_balIn lam _ h.2]
  ring

theorem sum_imbalance (lam : Rat) (g : List Swb) (h : ∀ w ∈ g, SwbOK w) :
    rsum (g.map (imbalance lam)) = lam * busCap g - busLoad g := by
  induction g with
  | nil => simp [busCap, busLoad]
  | cons w g ih =>
    simp only [List.map_cons, rsum_cons, busCap, busLoad] at *
    rw [ih (fun x hx => h x (List.mem_cons_of_mem _ hx)), imbalance_eq lam w (h w (by simp))]
    ring

end Feems.Electric
