import FeemsProofs.Prelude
import FeemsModel.Model.Fuel

set_option linter.unusedSimpArgs false
set_option linter.unusedSectionVars false

namespace Feems.Fuel
variable {M : Type} [AddCommMonoid M]

@[simp] theorem total_nil : total ([] : Rec M) = 0 := rfl
@[simp] theorem total_cons (e : Kind × M) (r : Rec M) : total (e :: r) = e.2 + total r := rfl

theorem total_append (r s : Rec M) : total (r ++ s) = total r + total s := by
  induction r with
  | nil => simp
  | cons e r ih => simp [ih, add_assoc]

theorem total_filter_split (p : Kind × M → Bool) (r : Rec M) :
    total (r.filter p) + total (r.filter (fun e => !p e)) = total r := by
  induction r with
  | nil => simp
  | cons e r ih =>
    by_cases h : p e
    · simp [List.filter_cons, h, add_assoc, ih]
    · simp [List.filter_cons, h]
      rw [← ih]; exact add_left_comm _ _ _

theorem massOf_append (k : Kind) (r s : Rec M) : massOf k (r ++ s) = massOf k r + massOf k s := by
  simp [massOf, total_append]

theorem massOf_cons (k : Kind) (e : Kind × M) (r : Rec M) :
    massOf k (e :: r) = (if e.1 = k then e.2 else 0) + massOf k r := by
  by_cases h : e.1 = k <;> simp [massOf, List.filter_cons, h]

theorem massOf_eq_zero_of_not_mem (k : Kind) (r : Rec M) (h : k ∉ kinds r) : massOf k r = 0 := by
  induction r with
  | nil => rfl
  | cons e r ih =>
    simp only [kinds, List.map_cons, List.mem_cons, not_or] at h
    rw [massOf_cons, if_neg (fun h' => h.1 h'.symm), zero_add]
    exact ih h.2

/-- In a well-formed record the first entry of a kind carries that kind's whole mass. -/
theorem firstOf_eq (k : Kind) (b : Rec M) (hb : WellFormed b) :
    (match firstOf k b with | some e => e.2 | none => 0) = massOf k b := by
  induction b with
  | nil => rfl
  | cons e b ih =>
    have hb' : WellFormed b := (List.nodup_cons.mp hb).2
    have hnot : e.1 ∉ kinds b := (List.nodup_cons.mp hb).1
    rw [massOf_cons]
    by_cases h : e.1 = k
    · subst h
      simp [firstOf, List.find?_cons, massOf_eq_zero_of_not_mem _ _ hnot]
    · simp only [firstOf, List.find?_cons, h, decide_false, if_false, zero_add] at *
      exact ih hb'

theorem addRest_eq_filter (aks : List Kind) (seen : List Kind) (b : Rec M)
    (hb : WellFormed b) (hs : ∀ e ∈ b, e.1 ∉ seen) :
    addRest aks seen b = b.filter (fun e => decide (e.1 ∉ aks)) := by
  induction b generalizing seen with
  | nil => rfl
  | cons e b ih =>
    have hb' : WellFormed b := (List.nodup_cons.mp hb).2
    have hnot : e.1 ∉ kinds b := (List.nodup_cons.mp hb).1
    have hs' : ∀ e' ∈ b, e'.1 ∉ e.1 :: seen := by
      intro e' he' hmem
      rcases List.mem_cons.mp hmem with h | h
      · exact hnot (h ▸ List.mem_map_of_mem (f := fun x => x.1) he')
      · exact hs e' (List.mem_cons_of_mem _ he') h
    have he : e.1 ∉ seen := hs e List.mem_cons_self
    by_cases h : e.1 ∈ aks
    · simp [addRest, h, he, List.filter_cons, ih _ hb' hs']
    · simp [addRest, h, List.filter_cons, ih _ hb' hs']

/-- Closed form of `add` on well-formed right operands. -/
def addSpec (a b : Rec M) : Rec M :=
  a.map (fun e => (e.1, e.2 + massOf e.1 b)) ++ b.filter (fun e => decide (e.1 ∉ kinds a))

theorem add_eq_spec (a b : Rec M) (hb : WellFormed b) : add a b = addSpec a b := by
  unfold add addSpec
  split
  · rename_i h
    have : a = [] := List.isEmpty_iff.mp h
    subst this; simp [kinds]
  · congr 1
    · unfold addMatched
      apply List.map_congr_left
      intro e _
      rw [← firstOf_eq e.1 b hb]
      cases firstOf e.1 b <;> simp
    · exact addRest_eq_filter _ _ _ hb (by simp)

theorem total_map_add (a : Rec M) (f : Kind → M) :
    total (a.map (fun e => (e.1, e.2 + f e.1))) = total a + (a.map (fun e => f e.1)).sum := by
  induction a with
  | nil => simp
  | cons e a ih =>
    simp only [List.map_cons, total_cons, List.sum_cons, ih]
    rw [add_add_add_comm]

/-- Sum over the entries of a well-formed `a` of the mass their kind has in `b`. -/
theorem sum_massOf_eq (a b : Rec M) (ha : WellFormed a) :
    (a.map (fun e => massOf e.1 b)).sum = total (b.filter (fun e => decide (e.1 ∈ kinds a))) := by
  induction a with
  | nil => simp [kinds]
  | cons e a ih =>
    have ha' : WellFormed a := (List.nodup_cons.mp ha).2
    have hnot : e.1 ∉ kinds a := (List.nodup_cons.mp ha).1
    simp only [List.map_cons, List.sum_cons, ih ha']
    -- split the filter on `kinds (e :: a)` into the part of kind `e.1` and the rest
    have hk : ∀ x : Kind, x ∈ kinds (e :: a) ↔ x = e.1 ∨ x ∈ kinds a := by
      intro x; simp [kinds]
    have : ∀ r : Rec M, total (r.filter (fun x => decide (x.1 ∈ kinds (e :: a)))) =
        massOf e.1 r + total (r.filter (fun x => decide (x.1 ∈ kinds a))) := by
      intro r
      induction r with
      | nil => simp [massOf]
      | cons x r ihr =>
        rw [massOf_cons]
        by_cases h1 : x.1 = e.1
        · have h2 : x.1 ∉ kinds a := h1 ▸ hnot
          have h3 : x.1 ∈ kinds (e :: a) := (hk _).mpr (Or.inl h1)
          rw [List.filter_cons_of_pos (by simpa using h3), List.filter_cons_of_neg (by simpa using h2)]
          rw [total_cons, ihr, if_pos h1, add_assoc]
        · have h1' : ¬ e.1 = x.1 := fun h => h1 h.symm
          by_cases h2 : x.1 ∈ kinds a
          · have h3 : x.1 ∈ kinds (e :: a) := (hk _).mpr (Or.inr h2)
            rw [List.filter_cons_of_pos (by simpa using h3), List.filter_cons_of_pos (by simpa using h2)]
            rw [total_cons, total_cons, ihr, if_neg h1, zero_add]; exact add_left_comm _ _ _
          · have h3 : x.1 ∉ kinds (e :: a) := fun h => ((hk _).mp h).elim h1 h2
            rw [List.filter_cons_of_neg (by simpa using h3), List.filter_cons_of_neg (by simpa using h2)]
            rw [ihr, if_neg h1, zero_add]
    rw [this]

end Feems.Fuel
