import FeemsProofs.Prelude
import FeemsModel.Model.KeyedList

set_option linter.unusedSimpArgs false
set_option linter.unusedSectionVars false

namespace Feems.KV
variable {K M : Type} [DecidableEq K] [AddCommMonoid M]

@[simp] theorem total_nil : total ([] : Rec K M) = 0 := rfl
@[simp] theorem total_cons (e : K × M) (r : Rec K M) : total (e :: r) = e.2 + total r := rfl

theorem total_append (r s : Rec K M) : total (r ++ s) = total r + total s := by
  induction r with
  | nil => simp
  | cons e r ih => simp [ih, add_assoc]

theorem total_filter_split (p : K × M → Bool) (r : Rec K M) :
    total (r.filter p) + total (r.filter (fun e => !p e)) = total r := by
  induction r with
  | nil => simp
  | cons e r ih =>
    by_cases h : p e
    · simp [List.filter_cons, h, add_assoc, ih]
    · simp [List.filter_cons, h]
      rw [← ih]; exact add_left_comm _ _ _

theorem massOf_append (k : K) (r s : Rec K M) : massOf k (r ++ s) = massOf k r + massOf k s := by
  simp [massOf, total_append]

theorem massOf_cons (k : K) (e : K × M) (r : Rec K M) :
    massOf k (e :: r) = (if e.1 = k then e.2 else 0) + massOf k r := by
  by_cases h : e.1 = k <;> simp [massOf, List.filter_cons, h]

theorem massOf_eq_zero_of_not_mem (k : K) (r : Rec K M) (h : k ∉ kinds r) : massOf k r = 0 := by
  induction r with
  | nil => rfl
  | cons e r ih =>
    simp only [kinds, List.map_cons, List.mem_cons, not_or] at h
    rw [massOf_cons, if_neg (fun h' => h.1 h'.symm), zero_add]
    exact ih h.2

/-! ### `takeFirst` and the addition -/

theorem takeFirst_none_iff (k : K) (b : Rec K M) : takeFirst k b = none ↔ k ∉ kinds b := by
  induction b with
  | nil => simp [takeFirst, kinds]
  | cons e b ih =>
    by_cases h : e.1 = k
    · simp [takeFirst, h, kinds]
    · have h' : ¬ k = e.1 := fun x => h x.symm
      simp only [takeFirst, h, if_false, kinds, List.map_cons, List.mem_cons, h', false_or]
      cases ht : takeFirst k b with
      | none => simpa [ht, kinds] using ih
      | some p => simp [ht, kinds] at ih ⊢; exact ih

/-- Taking an entry out conserves the total, every kind's mass, and the remaining kinds. -/
theorem takeFirst_some {k : K} {b b' : Rec K M} {m : M} (h : takeFirst k b = some (m, b')) :
    total b = m + total b' ∧ (∀ k', massOf k' b = (if k = k' then m else 0) + massOf k' b') ∧
    (kinds b).Perm (k :: kinds b') := by
  induction b generalizing b' m with
  | nil => simp [takeFirst] at h
  | cons e b ih =>
    by_cases hk : e.1 = k
    · simp only [takeFirst, hk, if_true, Option.some.injEq, Prod.mk.injEq] at h
      obtain ⟨rfl, rfl⟩ := h
      refine ⟨rfl, fun k' => ?_, ?_⟩
      · rw [massOf_cons, hk]
      · simp [kinds, hk]
    · simp only [takeFirst, hk, if_false] at h
      cases ht : takeFirst k b with
      | none => simp [ht] at h
      | some p =>
        obtain ⟨m0, b0⟩ := p
        simp only [ht, Option.some.injEq, Prod.mk.injEq] at h
        obtain ⟨rfl, rfl⟩ := h
        obtain ⟨h1, h2, h3⟩ := ih ht
        refine ⟨?_, fun k' => ?_, ?_⟩
        · rw [total_cons, total_cons, h1]; exact add_left_comm _ _ _
        · rw [massOf_cons, massOf_cons, h2 k']; exact add_left_comm _ _ _
        · have : kinds (e :: b0) = e.1 :: kinds b0 := rfl
          rw [this]
          exact (List.Perm.cons e.1 h3).trans (List.Perm.swap _ _ _)

/-- Addition conserves the total mass — for *all* records, also those that list a kind twice. -/
theorem total_add (a b : Rec K M) : total (add a b) = total a + total b := by
  induction a generalizing b with
  | nil => simp [add]
  | cons e a ih =>
    unfold add
    cases ht : takeFirst e.1 b with
    | none => simp only [total_cons, ih, add_assoc]
    | some p =>
      obtain ⟨m, b'⟩ := p
      simp only [total_cons, ih, (takeFirst_some ht).1]
      ac_rfl

/-- Addition adds the mass of every kind — for all records. -/
theorem massOf_add (k : K) (a b : Rec K M) : massOf k (add a b) = massOf k a + massOf k b := by
  induction a generalizing b with
  | nil => simp [add, massOf]
  | cons e a ih =>
    unfold add
    cases ht : takeFirst e.1 b with
    | none => simp only [massOf_cons, ih, add_assoc]
    | some p =>
      obtain ⟨m, b'⟩ := p
      simp only [massOf_cons, ih, (takeFirst_some ht).2.1 k]
      by_cases h : e.1 = k
      · simp [h]; ac_rfl
      · simp [h]

/-- The kinds of the sum are the kinds of the left operand followed by those kinds of the right
operand that found no partner: as multisets, `kinds (add a b) + (matched) = kinds a + kinds b`;
in particular no new kind appears and none is lost. -/
theorem mem_kinds_add (k : K) (a b : Rec K M) : k ∈ kinds (add a b) ↔ k ∈ kinds a ∨ k ∈ kinds b := by
  induction a generalizing b with
  | nil => simp [add, kinds]
  | cons e a ih =>
    unfold add
    cases ht : takeFirst e.1 b with
    | none =>
      have : kinds (e :: add a b) = e.1 :: kinds (add a b) := rfl
      rw [this, List.mem_cons, ih]
      have : kinds (e :: a) = e.1 :: kinds a := rfl
      rw [this, List.mem_cons, or_assoc]
    | some p =>
      obtain ⟨m, b'⟩ := p
      have hp := (takeFirst_some ht).2.2
      have : kinds ((e.1, e.2 + m) :: add a b') = e.1 :: kinds (add a b') := rfl
      rw [this, List.mem_cons, ih, hp.mem_iff]
      have : kinds (e :: a) = e.1 :: kinds a := rfl
      rw [this, List.mem_cons, List.mem_cons]
      constructor
      · rintro (h | h | h)
        · exact Or.inl (Or.inl h)
        · exact Or.inl (Or.inr h)
        · exact Or.inr (Or.inr h)
      · rintro ((h | h) | h | h)
        · exact Or.inl h
        · exact Or.inr (Or.inl h)
        · exact Or.inl h
        · exact Or.inr (Or.inr h)

/-- The sum of two well-formed records is well formed. -/
theorem wellFormed_add (a b : Rec K M) (ha : WellFormed a) (hb : WellFormed b) :
    WellFormed (add a b) := by
  induction a generalizing b with
  | nil => simpa [add] using hb
  | cons e a ih =>
    have ha' : WellFormed a := (List.nodup_cons.mp ha).2
    have hnot : e.1 ∉ kinds a := (List.nodup_cons.mp ha).1
    unfold add
    cases ht : takeFirst e.1 b with
    | none =>
      have hb0 : e.1 ∉ kinds b := (takeFirst_none_iff _ _).mp ht
      have : kinds (e :: add a b) = e.1 :: kinds (add a b) := rfl
      unfold WellFormed; rw [this]
      refine List.nodup_cons.mpr ⟨?_, ih b ha' hb⟩
      rw [mem_kinds_add]; exact fun h => h.elim hnot hb0
    | some p =>
      obtain ⟨m, b'⟩ := p
      have hp := (takeFirst_some ht).2.2
      have hb2 : (e.1 :: kinds b').Nodup := hp.nodup_iff.mp hb
      have hb' : WellFormed b' := (List.nodup_cons.mp hb2).2
      have hb0 : e.1 ∉ kinds b' := (List.nodup_cons.mp hb2).1
      have : kinds ((e.1, e.2 + m) :: add a b') = e.1 :: kinds (add a b') := rfl
      unfold WellFormed; rw [this]
      refine List.nodup_cons.mpr ⟨?_, ih b' ha' hb'⟩
      rw [mem_kinds_add]; exact fun h => h.elim hnot hb0

/-- In a well-formed record the entry taken out carries its kind's whole mass. -/
theorem takeFirst_wellFormed (k : K) (b : Rec K M) (hb : WellFormed b) :
    takeFirst k b = if k ∈ kinds b then some (massOf k b, b.filter (fun e => !decide (e.1 = k))) else none := by
  induction b with
  | nil => simp [takeFirst, kinds]
  | cons e b ih =>
    have hb' : WellFormed b := (List.nodup_cons.mp hb).2
    have hnot : e.1 ∉ kinds b := (List.nodup_cons.mp hb).1
    have hkk : kinds (e :: b) = e.1 :: kinds b := rfl
    by_cases h : e.1 = k
    · subst h
      have hf : b.filter (fun x => !decide (x.1 = e.1)) = b := by
        apply List.filter_eq_self.mpr
        intro x hx
        have : x.1 ≠ e.1 := fun hh => hnot (hh ▸ List.mem_map_of_mem (f := fun y => y.1) hx)
        simpa using this
      simp [takeFirst, hkk, massOf_cons, massOf_eq_zero_of_not_mem _ _ hnot, List.filter_cons, hf]
    · have h' : ¬ k = e.1 := fun x => h x.symm
      simp only [takeFirst, h, if_false, ih hb', hkk, List.mem_cons, h', false_or, massOf_cons, zero_add]
      by_cases hm : k ∈ kinds b
      · simp [hm, List.filter_cons, h]
      · simp [hm]

/-- On well-formed operands the addition is the union merge `addSpec`. -/
theorem add_eq_spec (a b : Rec K M) (ha : WellFormed a) (hb : WellFormed b) : add a b = addSpec a b := by
  induction a generalizing b with
  | nil => simp [add, addSpec, kinds]
  | cons e a ih =>
    have ha' : WellFormed a := (List.nodup_cons.mp ha).2
    have hnot : e.1 ∉ kinds a := (List.nodup_cons.mp ha).1
    have hkk : kinds (e :: a) = e.1 :: kinds a := rfl
    unfold add
    rw [takeFirst_wellFormed _ _ hb]
    by_cases hm : e.1 ∈ kinds b
    · rw [if_pos hm]
      have hb' : WellFormed (b.filter (fun x => !decide (x.1 = e.1))) :=
        List.Nodup.sublist (List.Sublist.map _ List.filter_sublist) hb
      simp only [ih _ ha' hb']
      unfold addSpec
      rw [List.map_cons, List.cons_append]
      congr 1
      congr 1
      · apply List.map_congr_left
        intro x hx
        have hx1 : x.1 ≠ e.1 := fun hh => hnot (hh ▸ List.mem_map_of_mem (f := fun y => y.1) hx)
        congr 1; congr 1
        unfold massOf
        rw [List.filter_filter]
        congr 1
        apply List.filter_congr
        intro y _
        by_cases hy : y.1 = x.1
        · simp [hy, hx1]
        · simp [hy]
      · rw [List.filter_filter]
        apply List.filter_congr
        intro y _
        rw [hkk]
        by_cases hy : y.1 = e.1 <;> simp [hy, List.mem_cons]
    · rw [if_neg hm]
      simp only [ih _ ha' hb]
      unfold addSpec
      rw [List.map_cons, List.cons_append, massOf_eq_zero_of_not_mem _ _ hm, add_zero]
      congr 1
      congr 1
      apply List.filter_congr
      intro y hy
      have : y.1 ≠ e.1 := fun hh => hm (hh ▸ List.mem_map_of_mem (f := fun z => z.1) hy)
      rw [hkk]; simp [List.mem_cons, this]

/-! ### The addition as found (`addLegacy`) -/

/-- In a well-formed record the first entry of a kind carries that kind's whole mass. -/
theorem firstOf_eq (k : K) (b : Rec K M) (hb : WellFormed b) :
    (match firstOf k b with | some e => e.2 | none => 0) = massOf k b := by
  induction b with
  | nil => rfl
  | cons e b ih =>
    have hb' : WellFormed b := (List.nodup_cons.mp hb).2
    have hnot : e.1 ∉ kinds b := (List.nodup_cons.mp hb).1
    rw [massOf_cons]
    by_cases h : e.1 = k
    · subst h
      simp [firstOf, List.find?_cons, massOf_eq_zero_of_not_mem _ _ hnot]
    · simp only [firstOf, List.find?_cons, h, decide_false, if_false, zero_add] at *
      exact ih hb'

theorem addRest_eq_filter (aks : List K) (seen : List K) (b : Rec K M)
    (hb : WellFormed b) (hs : ∀ e ∈ b, e.1 ∉ seen) :
    addRest aks seen b = b.filter (fun e => decide (e.1 ∉ aks)) := by
  induction b generalizing seen with
  | nil => rfl
  | cons e b ih =>
    have hb' : WellFormed b := (List.nodup_cons.mp hb).2
    have hnot : e.1 ∉ kinds b := (List.nodup_cons.mp hb).1
    have hs' : ∀ e' ∈ b, e'.1 ∉ e.1 :: seen := by
      intro e' he' hmem
      rcases List.mem_cons.mp hmem with h | h
      · exact hnot (h ▸ List.mem_map_of_mem (f := fun x => x.1) he')
      · exact hs e' (List.mem_cons_of_mem _ he') h
    have he : e.1 ∉ seen := hs e List.mem_cons_self
    by_cases h : e.1 ∈ aks
    · simp [addRest, h, he, List.filter_cons, ih _ hb' hs']
    · simp [addRest, h, List.filter_cons, ih _ hb' hs']

theorem total_map_add (a : Rec K M) (f : K → M) :
    total (a.map (fun e => (e.1, e.2 + f e.1))) = total a + (a.map (fun e => f e.1)).sum := by
  induction a with
  | nil => simp
  | cons e a ih =>
    simp only [List.map_cons, total_cons, List.sum_cons, ih]
    rw [add_add_add_comm]

/-- Sum over the entries of a well-formed `a` of the mass their kind has in `b`. -/
theorem sum_massOf_eq (a b : Rec K M) (ha : WellFormed a) :
    (a.map (fun e => massOf e.1 b)).sum = total (b.filter (fun e => decide (e.1 ∈ kinds a))) := by
  induction a with
  | nil => simp [kinds]
  | cons e a ih =>
    have ha' : WellFormed a := (List.nodup_cons.mp ha).2
    have hnot : e.1 ∉ kinds a := (List.nodup_cons.mp ha).1
    simp only [List.map_cons, List.sum_cons, ih ha']
    -- split the filter on `kinds (e :: a)` into the part of kind `e.1` and the rest
    have hk : ∀ x : K, x ∈ kinds (e :: a) ↔ x = e.1 ∨ x ∈ kinds a := by
      intro x; simp [kinds]
    have : ∀ r : Rec K M, total (r.filter (fun x => decide (x.1 ∈ kinds (e :: a)))) =
        massOf e.1 r + total (r.filter (fun x => decide (x.1 ∈ kinds a))) := by
      intro r
      induction r with
      | nil => simp [massOf]
      | cons x r ihr =>
        rw [massOf_cons]
        by_cases h1 : x.1 = e.1
        · have h2 : x.1 ∉ kinds a := h1 ▸ hnot
          have h3 : x.1 ∈ kinds (e :: a) := (hk _).mpr (Or.inl h1)
          rw [List.filter_cons_of_pos (by simpa using h3), List.filter_cons_of_neg (by simpa using h2)]
          rw [total_cons, ihr, if_pos h1, add_assoc]
        · have h1' : ¬ e.1 = x.1 := fun h => h1 h.symm
          by_cases h2 : x.1 ∈ kinds a
          · have h3 : x.1 ∈ kinds (e :: a) := (hk _).mpr (Or.inr h2)
            rw [List.filter_cons_of_pos (by simpa using h3), List.filter_cons_of_pos (by simpa using h2)]
            rw [total_cons, total_cons, ihr, if_neg h1, zero_add]; exact add_left_comm _ _ _
          · have h3 : x.1 ∉ kinds (e :: a) := fun h => ((hk _).mp h).elim h1 h2
            rw [List.filter_cons_of_neg (by simpa using h3), List.filter_cons_of_neg (by simpa using h2)]
            rw [ihr, if_neg h1, zero_add]
    rw [this]


theorem massOf_addSpec (k : K) (a b : Rec K M) (ha : WellFormed a) :
    massOf k (addSpec a b) = massOf k a + massOf k b := by
  rw [addSpec, massOf_append]
  -- left part: the entries of `a`, each with the mass of its kind in `b` added
  have h1 : massOf k (a.map (fun e => (e.1, e.2 + massOf e.1 b))) =
      massOf k a + (if k ∈ kinds a then massOf k b else 0) := by
    induction a with
    | nil => simp [massOf, kinds]
    | cons e a ih =>
      have ha' : WellFormed a := (List.nodup_cons.mp ha).2
      have hnot : e.1 ∉ kinds a := (List.nodup_cons.mp ha).1
      rw [List.map_cons, massOf_cons, massOf_cons, ih ha']
      have hk : k ∈ kinds (e :: a) ↔ k = e.1 ∨ k ∈ kinds a := by simp [kinds]
      by_cases h : e.1 = k
      · subst h
        rw [if_pos rfl, if_pos rfl, if_neg hnot, if_pos (hk.mpr (Or.inl rfl)), add_zero]
        show e.2 + massOf e.1 b + massOf e.1 a = e.2 + massOf e.1 a + massOf e.1 b
        ac_rfl
      · have h' : ¬ k = e.1 := fun x => h x.symm
        rw [if_neg h, if_neg h, zero_add, zero_add]
        by_cases hm : k ∈ kinds a
        · rw [if_pos hm, if_pos (hk.mpr (Or.inr hm))]
        · rw [if_neg hm, if_neg (fun x => (hk.mp x).elim h' hm)]
  -- right part: the entries of `b` whose kind is not in `a`
  have h2 : massOf k (b.filter (fun e => decide (e.1 ∉ kinds a))) =
      (if k ∈ kinds a then 0 else massOf k b) := by
    unfold massOf
    rw [List.filter_filter]
    by_cases h : k ∈ kinds a
    · rw [if_pos h]
      have : b.filter (fun e => (decide (e.1 = k) && decide (e.1 ∉ kinds a))) = [] := by
        apply List.filter_eq_nil_iff.mpr
        intro e _ hc
        simp only [Bool.and_eq_true, decide_eq_true_eq] at hc
        exact hc.2 (hc.1 ▸ h)
      rw [this]; rfl
    · rw [if_neg h]
      congr 1
      apply List.filter_congr
      intro e _
      by_cases hk : e.1 = k
      · simp [hk, h]
      · simp [hk]
  rw [h1, h2]
  by_cases h : k ∈ kinds a <;> simp [h, add_assoc]

theorem total_addSpec (a b : Rec K M) (ha : WellFormed a) :
    total (addSpec a b) = total a + total b := by
  rw [addSpec, total_append, total_map_add a (fun k => massOf k b), sum_massOf_eq a b ha, add_assoc]
  congr 1
  have := total_filter_split (fun e => decide (e.1 ∈ kinds a)) b
  simpa using this

theorem wellFormed_addSpec (a b : Rec K M) (ha : WellFormed a) (hb : WellFormed b) :
    WellFormed (addSpec a b) := by
  unfold addSpec WellFormed kinds
  rw [List.map_append, List.map_map]
  have e1 : ((fun x : K × M => x.1) ∘ fun e : K × M => (e.1, e.2 + massOf e.1 b)) = fun x : K × M => x.1 := rfl
  rw [e1]
  apply List.Nodup.append ha
  · exact List.Nodup.sublist (List.Sublist.map _ List.filter_sublist) hb
  · intro k hk1 hk2
    rcases List.mem_map.mp hk2 with ⟨e, he, rfl⟩
    have := (List.mem_filter.mp he).2
    simp only [decide_eq_true_eq] at this
    exact this hk1

end Feems.KV
