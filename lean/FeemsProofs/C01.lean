/-
C01 — electric power balance holds on every bus at every time step.
The bus of a switchboard is its class under the labelling of C02 (`Bus.group` of the breakers
closed at that step: `C02.grouping_at_step`), so "every group of switchboards connected through
closed breakers" is "every label class".
-/
import FeemsProofs.Lemmas.ElectricLemmas
import FeemsProofs.C02

set_option linter.unusedSimpArgs false
set_option linter.unusedVariables false

namespace Feems.Props.C01
open Feems Feems.Electric

/-- Power delivered by the sources of the switchboards in `g` at load fraction `lam`. -/
def delivered (lam : Rat) (g : List Swb) : Rat := rsum (g.map fun w => rsum (w.sources.map (srcOut lam)))

/-- Power drawn by consumers, PTI/PTO and storage (the latter two with sign). -/
def drawn (lam : Rat) (g : List Swb) : Rat :=
  rsum (g.map fun w => rsum w.consumers + rsum (w.balancers.map (balIn lam)))

theorem delivered_sub_drawn (lam : Rat) (g : List Swb) :
    delivered lam g - drawn lam g = rsum (g.map (imbalance lam)) := by
  induction g with
  | nil => simp [delivered, drawn]
  | cons w g ih =>
    simp only [delivered, drawn, List.map_cons, rsum_cons, imbalance] at *
    linarith

/-- **Balance.** For every group `g` of switchboards (in particular every bus), with the sharing
settings in their documented domain, whenever the group has balancing capacity where it has net
load: delivered = drawn. -/
theorem balance (g : List Swb) (hok : ∀ w ∈ g, SwbOK w) (hdef : busLoad g ≠ 0 → busCap g ≠ 0) :
    delivered (loadFrac g) g = drawn (loadFrac g) g := by
  have h := delivered_sub_drawn (loadFrac g) g
  rw [sum_imbalance _ g hok] at h
  have : loadFrac g * busCap g - busLoad g = 0 := by
    unfold loadFrac
    by_cases h0 : busLoad g = 0
    · simp [h0]
    · rw [if_neg h0, div_mul_cancel₀ _ (hdef h0)]; ring
  linarith

/-- The same for the bus of any switchboard under any labelling — every member of that bus is
given the bus's load fraction by `Electric.balance`. -/
theorem balance_bus (lab : Nat → Nat) (plant : List Swb) (w : Swb) (hok : ∀ v ∈ plant, SwbOK v)
    (hdef : busLoad (busOf lab plant w) ≠ 0 → busCap (busOf lab plant w) ≠ 0) :
    delivered (loadFrac (busOf lab plant w)) (busOf lab plant w) =
      drawn (loadFrac (busOf lab plant w)) (busOf lab plant w) :=
  balance _ (fun v hv => hok v (List.mem_of_mem_filter hv)) hdef

/-- Members of one bus see the same bus (so one load fraction per bus). -/
theorem busOf_eq (lab : Nat → Nat) (plant : List Swb) (w v : Swb) (h : lab v.id = lab w.id) :
    busOf lab plant v = busOf lab plant w := by
  unfold busOf; rw [h]

/-- With the labelling of C02, the bus of `w` consists of exactly the switchboards linked to `w`
by a chain of closed breakers. -/
theorem bus_is_connectivity_class (brs : List Bus.Breaker) (plant : List Swb) (w v : Swb) :
    v ∈ busOf (Bus.group brs) plant w ↔ v ∈ plant ∧ C02.Conn brs v.id w.id := by
  unfold busOf
  simp only [List.mem_filter, decide_eq_true_eq, C02.grouping]

/-- No net load ⇒ load fraction 0 ⇒ every equal-sharing source and balancing unit is at 0. -/
theorem no_load (g : List Swb) (h : busLoad g = 0) (s : Src) (hs : s.share = 0) :
    srcOut (loadFrac g) s = 0 := by
  unfold loadFrac srcOut; rw [if_pos h, hs]; split <;> simp

/-- Without capacity for a non-zero load the balance cannot hold (so the hypothesis is needed):
the imbalance is then exactly the uncovered load. -/
theorem no_capacity_imbalance (g : List Swb) (hok : ∀ w ∈ g, SwbOK w) (hc : busCap g = 0) (lam : Rat) :
    delivered lam g - drawn lam g = -busLoad g := by
  rw [delivered_sub_drawn, sum_imbalance _ g hok, hc]; ring

/-! ### Non-vacuity: three switchboards, one breaker open, a fixed-share source, a balancing battery -/

def exPlant : List Swb :=
  [⟨1, [⟨1000, true, 0⟩, ⟨500, true, 1/2⟩], [], [300, 200]⟩,
   ⟨2, [⟨800, true, 0⟩], [⟨400, true, 0, 0⟩], [600]⟩,
   ⟨3, [⟨700, false, 0⟩, ⟨600, true, 0⟩], [⟨300, true, 1, -100⟩], [250]⟩]

example : (∀ w ∈ exPlant, SwbOK w) ∧
    busLoad (busOf (Bus.group [⟨1, 2, true⟩, ⟨2, 3, false⟩]) exPlant exPlant[0]) ≠ 0 ∧
    busCap (busOf (Bus.group [⟨1, 2, true⟩, ⟨2, 3, false⟩]) exPlant exPlant[0]) ≠ 0 := by
  refine ⟨?_, by decide +kernel, by decide +kernel⟩
  unfold SwbOK SrcOK BalOK
  decide +kernel

/-- The plant of known finding D158 at the step where it shows: a 1000 kW generator sharing the load, a 400 kW
consumer, a 500 kW battery that is *given* 50 kW with load-sharing mode `m`. -/
def d158Plant (m : Rat) : List Swb :=
  [{ id := 1, sources := [{ rated := 1000, status := true, share := 0 }],
     balancers := [{ rated := 500, status := true, mode := m, given := 50 }], consumers := [400] }]

/-- With mode 1 the bus balances (an instance of `balance`, evaluated)… -/
theorem d158_mode_one_balances :
    delivered (loadFrac (d158Plant 1)) (d158Plant 1) = drawn (loadFrac (d158Plant 1)) (d158Plant 1) := by
  decide +kernel

/-- **D158 in the model** (the model multiplies the given power by the mode in the net load, as the code
does): with the fractional mode 1/2 the generator delivers 425 kW against 450 kW drawn — the hypothesis
`SwbOK` of `balance` (modes 0 or 1 for storage and PTI/PTO) cannot be dropped. -/
theorem d158_fractional_mode_gap :
    delivered (loadFrac (d158Plant (1/2))) (d158Plant (1/2)) = 425 ∧
    drawn (loadFrac (d158Plant (1/2))) (d158Plant (1/2)) = 450 := by
  constructor <;> decide +kernel

end Feems.Props.C01
