/-
C19 — combining results adds every quantity present in either operand.
Property theorems about `Feems.Result.merge` (the model of `FEEMSResult.__merge`).
-/
import FeemsProofs.Lemmas.KVLemmas
import FeemsModel.Model.Result
import FeemsProofs.C18

set_option linter.unusedSimpArgs false
set_option linter.unusedSectionVars false
set_option linter.unusedVariables false

namespace Feems.Props.C19
open Feems Feems.KV Feems.Fuel Feems.Result

/-- What a successful merge consists of, field by field. -/
theorem merge_ok {f : Bool} {a b r : Result} (h : merge f a b = .ok r) :
    mergeDuration f a.duration b.duration = .ok r.duration ∧
    mergeLoad f a.duration b.duration a.loadRatio b.loadRatio = .ok r.loadRatio ∧
    optMerge (fun x y => .ok (KV.addSpec x y)) a.emis b.emis = .ok r.emis ∧
    optMerge (fun x y => .ok (x ++ y)) a.detail b.detail = .ok r.detail ∧
    r.ext = addExt a.ext b.ext ∧ r.fuel = add a.fuel b.fuel ∧ r.co2 = a.co2.add b.co2 := by
  unfold merge at h
  cases h1 : mergeDuration f a.duration b.duration <;> rw [h1] at h
  · cases h
  cases h2 : mergeLoad f a.duration b.duration a.loadRatio b.loadRatio <;> rw [h2] at h
  · cases h
  cases h3 : optMerge (fun x y => Except.ok (KV.addSpec x y)) a.emis b.emis <;> rw [h3] at h
  · cases h
  cases h4 : optMerge (fun (x y : List Nat) => Except.ok (x ++ y)) a.detail b.detail <;> rw [h4] at h
  · cases h
  cases h
  exact ⟨rfl, rfl, rfl, rfl, rfl, rfl, rfl⟩

/-! ### Every extensive quantity is added -/

theorem addExt_get (xs ys : List Rat) (i : Nat) (hx : i < xs.length) (hy : i < ys.length) :
    (addExt xs ys)[i]? = some (xs[i] + ys[i]) := by
  induction xs generalizing ys i with
  | nil => cases hx
  | cons x xs ih =>
    cases ys with
    | nil => cases hy
    | cons y ys =>
      cases i with
      | zero => simp [addExt]
      | succ i => simpa [addExt] using ih ys i (by simpa using hx) (by simpa using hy)

theorem addExt_length (xs ys : List Rat) (h : xs.length = ys.length) :
    (addExt xs ys).length = xs.length := by
  induction xs generalizing ys with
  | nil => simp [addExt]
  | cons x xs ih =>
    cases ys with
    | nil => cases h
    | cons y ys => simp [addExt, ih ys (by simpa using h)]

/-- Every float field (energies, running hours, …) of the merge is the sum of the operands'. -/
theorem adds_ext {f a b r} (h : merge f a b = .ok r) (i : Nat) (hx : i < a.ext.length)
    (hy : i < b.ext.length) : r.ext[i]? = some (a.ext[i] + b.ext[i]) := by
  rw [(merge_ok h).2.2.2.2.1]; exact addExt_get _ _ i hx hy

/-- Fuel mass is added per fuel kind … -/
theorem adds_fuel {f a b r} (h : merge f a b = .ok r) (k : Kind) :
    massOf k r.fuel = massOf k a.fuel + massOf k b.fuel := by
  rw [(merge_ok h).2.2.2.2.2.1]; exact massOf_add k _ _

/-- … the CO2-equivalent components are added … -/
theorem adds_co2 {f a b r} (h : merge f a b = .ok r) :
    r.co2.ttw = a.co2.ttw + b.co2.ttw ∧ r.co2.wtt = a.co2.wtt + b.co2.wtt ∧
    r.co2.ttwNoSlip = a.co2.ttwNoSlip + b.co2.ttwNoSlip := by
  rw [(merge_ok h).2.2.2.2.2.2]; exact ⟨rfl, rfl, rfl⟩

/-- … and every emitted species present in either operand (`massOf` is 0 for an absent key). -/
theorem adds_species {f a b r} {ea eb : KV.Rec Nat Rat} (h : merge f a b = .ok r)
    (ha : a.emis = some ea) (hb : b.emis = some eb) (hwa : WellFormed ea) (k : Nat) :
    ∃ e, r.emis = some e ∧ massOf k e = massOf k ea + massOf k eb ∧
      (k ∈ kinds e ↔ k ∈ kinds ea ∨ k ∈ kinds eb) := by
  have h3 := (merge_ok h).2.2.1
  rw [ha, hb] at h3
  simp only [optMerge, Except.map] at h3
  refine ⟨KV.addSpec ea eb, by injection h3 with h3; exact h3.symm, massOf_addSpec k _ _ hwa, ?_⟩
  unfold KV.addSpec kinds
  simp only [List.map_append, List.map_map, List.mem_append, List.mem_map, Function.comp,
    List.mem_filter, decide_eq_true_eq]
  constructor
  · rintro (⟨e, he, rfl⟩ | ⟨e, ⟨he, _⟩, rfl⟩)
    · exact Or.inl ⟨e, he, rfl⟩
    · exact Or.inr ⟨e, he, rfl⟩
  · rintro (⟨e, he, rfl⟩ | ⟨e, he, rfl⟩)
    · exact Or.inl ⟨e, he, rfl⟩
    · by_cases hm : e.1 ∈ List.map (fun x => x.1) ea
      · rcases List.mem_map.mp hm with ⟨e', he', h'⟩
        exact Or.inl ⟨e', he', h'⟩
      · exact Or.inr ⟨e, ⟨he, fun ⟨a, ha, h'⟩ => hm (List.mem_map.mpr ⟨a, ha, h'⟩)⟩, rfl⟩

/-- A field unset on one side is taken from the other side (species, detail, duration, load). -/
theorem species_one_sided {f a b r} (h : merge f a b = .ok r) :
    (a.emis = none → r.emis = b.emis) ∧ (b.emis = none → r.emis = a.emis) := by
  have h3 := (merge_ok h).2.2.1
  constructor <;> intro hn <;> rw [hn] at h3
  · simp only [optMerge] at h3; injection h3 with h3; exact h3.symm
  · cases he : a.emis <;> rw [he] at h3 <;> simp only [optMerge] at h3 <;> injection h3 with h3 <;> exact h3.symm

/-- Detail tables are concatenated. -/
theorem detail_concat {f a b r} {da db : List Nat} (h : merge f a b = .ok r)
    (ha : a.detail = some da) (hb : b.detail = some db) : r.detail = some (da ++ db) := by
  have h4 := (merge_ok h).2.2.2.1
  rw [ha, hb] at h4
  simp only [optMerge, Except.map] at h4
  injection h4 with h4; exact h4.symm

/-! ### Same-period and consecutive-period rules -/

/-- Same period: the common duration is kept (and the merge is refused when they differ) … -/
theorem freeze_duration {a b r} {d1 d2 : Rat} (h : merge true a b = .ok r)
    (ha : a.duration = some d1) (hb : b.duration = some d2) : d1 = d2 ∧ r.duration = some d1 := by
  have h1 := (merge_ok h).1
  rw [ha, hb] at h1
  simp only [mergeDuration, optMerge, if_true] at h1
  by_cases hd : d1 = d2
  · rw [if_pos hd] at h1; simp only [Except.map] at h1; injection h1 with h1; exact ⟨hd, h1.symm⟩
  · rw [if_neg hd] at h1; simp [Except.map] at h1

/-- … and the larger generator load is reported. -/
theorem freeze_load {a b r} {l1 l2 : Rat} (h : merge true a b = .ok r)
    (ha : a.loadRatio = some l1) (hb : b.loadRatio = some l2) : r.loadRatio = some (max l1 l2) := by
  have h2 := (merge_ok h).2.1
  rw [ha, hb] at h2
  simp only [mergeLoad, optMerge, if_true, Except.map] at h2
  injection h2 with h2; exact h2.symm

/-- Consecutive periods: durations add … -/
theorem extend_duration {a b r} {d1 d2 : Rat} (h : merge false a b = .ok r)
    (ha : a.duration = some d1) (hb : b.duration = some d2) : r.duration = some (d1 + d2) := by
  have h1 := (merge_ok h).1
  rw [ha, hb] at h1
  simp only [mergeDuration, optMerge, Except.map] at h1
  simpa using h1.symm

/-- … and the generator load is time-weighted. -/
theorem extend_load {a b r} {d1 d2 l1 l2 : Rat} (h : merge false a b = .ok r)
    (ha : a.duration = some d1) (hb : b.duration = some d2)
    (hla : a.loadRatio = some l1) (hlb : b.loadRatio = some l2) (hd : d1 + d2 ≠ 0) :
    r.loadRatio = some ((l1 * d1 + l2 * d2) / (d1 + d2)) := by
  have h2 := (merge_ok h).2.1
  rw [ha, hb, hla, hlb] at h2
  simp only [mergeLoad, optMerge, Bool.false_eq_true, if_false, if_neg hd, Except.map] at h2
  injection h2 with h2; exact h2.symm


/-! ### Associativity and the neutral element

Results are compared field by field; the fuel record and the species dictionary as finite maps
(`massOf` per key and key membership), because the order of their entries depends on grouping. -/

/-- value of the consecutive-period duration merge -/
def durE : Option Rat → Option Rat → Option Rat
  | none, y => y
  | x, none => x
  | some x, some y => some (x + y)

/-- value of the consecutive-period load merge (when no division by zero occurs) -/
def loadE (da db : Option Rat) : Option Rat → Option Rat → Option Rat
  | none, y => y
  | x, none => x
  | some x, some y =>
    match da, db with
    | none, _ => some y
    | _, none => some x
    | some d1, some d2 => some ((x * d1 + y * d2) / (d1 + d2))

theorem mergeDuration_extend (x y : Option Rat) : mergeDuration false x y = .ok (durE x y) := by
  cases x <;> cases y <;> simp [mergeDuration, optMerge, durE, Except.map]

def Pos (d : Option Rat) : Prop := ∀ x, d = some x → 0 < x

theorem mergeLoad_extend (da db la lb : Option Rat) (pa : Pos da) (pb : Pos db) :
    mergeLoad false da db la lb = .ok (loadE da db la lb) := by
  cases la <;> cases lb <;> cases da <;> cases db <;> simp [mergeLoad, optMerge, loadE, Except.map]
  rename_i x y d1 d2
  have h1 := pa d1 rfl; have h2 := pb d2 rfl
  rw [if_neg (by positivity)]

theorem pos_durE {x y : Option Rat} (px : Pos x) (py : Pos y) : Pos (durE x y) := by
  cases x <;> cases y <;> simp [durE, Pos] at *
  · exact py
  · exact px
  · rename_i a b; have := px; have := py; positivity

theorem loadE_assoc (da db dc la lb lc : Option Rat) (pa : Pos da) (pb : Pos db) (pc : Pos dc)
    (ca : la = none → da = none) (cb : lb = none → db = none) (cc : lc = none → dc = none) :
    loadE (durE da db) dc (loadE da db la lb) lc = loadE da (durE db dc) la (loadE db dc lb lc) := by
  cases da <;> cases db <;> cases dc <;> cases la <;> cases lb <;> cases lc <;>
    simp [durE, loadE] at * 
  rename_i d1 d2 d3 l1 l2 l3
  have h1 := pa d1 rfl; have h2 := pb d2 rfl; have h3 := pc d3 rfl
  field_simp
  ring

/-- Value of the merge of two optional species dictionaries / detail tables. -/
def optE {α : Type} (f : α → α → α) : Option α → Option α → Option α
  | none, y => y
  | x, none => x
  | some x, some y => some (f x y)

theorem optMerge_ok {α : Type} (f : α → α → α) (x y : Option α) :
    optMerge (fun a b => .ok (f a b)) x y = .ok (optE f x y) := by
  cases x <;> cases y <;> simp [optMerge, optE, Except.map]

theorem optE_assoc {α : Type} (f : α → α → α) (hf : ∀ a b c, f (f a b) c = f a (f b c))
    (x y z : Option α) : optE f (optE f x y) z = optE f x (optE f y z) := by
  cases x <;> cases y <;> cases z <;> simp [optE, hf]

/-- Dictionary view of an optional species list. -/
def speciesView (e : Option (KV.Rec Nat Rat)) (k : Nat) : Option Rat :=
  e.bind fun r => if k ∈ kinds r then some (massOf k r) else none

def WFo (e : Option (KV.Rec Nat Rat)) : Prop := ∀ r, e = some r → WellFormed r

theorem mem_kinds_addSpec (a b : KV.Rec Nat Rat) (k : Nat) :
    k ∈ kinds (KV.addSpec a b) ↔ k ∈ kinds a ∨ k ∈ kinds b := by
  unfold KV.addSpec kinds
  simp only [List.map_append, List.map_map, List.mem_append, List.mem_map, Function.comp,
    List.mem_filter, decide_eq_true_eq]
  constructor
  · rintro (⟨e, he, rfl⟩ | ⟨e, ⟨he, _⟩, rfl⟩)
    · exact Or.inl ⟨e, he, rfl⟩
    · exact Or.inr ⟨e, he, rfl⟩
  · rintro (⟨e, he, rfl⟩ | ⟨e, he, rfl⟩)
    · exact Or.inl ⟨e, he, rfl⟩
    · by_cases hm : e.1 ∈ List.map (fun x => x.1) a
      · rcases List.mem_map.mp hm with ⟨e', he', h'⟩
        exact Or.inl ⟨e', he', h'⟩
      · exact Or.inr ⟨e, ⟨he, fun ⟨a', ha', h'⟩ => hm (List.mem_map.mpr ⟨a', ha', h'⟩)⟩, rfl⟩

theorem species_assoc (a b c : Option (KV.Rec Nat Rat)) (ha : WFo a) (hb : WFo b) (k : Nat) :
    speciesView (optE KV.addSpec (optE KV.addSpec a b) c) k =
    speciesView (optE KV.addSpec a (optE KV.addSpec b c)) k := by
  cases a with
  | none => cases b <;> cases c <;> simp [optE]
  | some a =>
    cases b with
    | none => cases c <;> simp [optE]
    | some b =>
      cases c with
      | none => simp [optE]
      | some c =>
        have wa := ha a rfl; have wb := hb b rfl
        have wab : WellFormed (KV.addSpec a b) := wellFormed_addSpec a b wa wb
        simp only [optE, speciesView, Option.bind_some, mem_kinds_addSpec]
        rw [massOf_addSpec k _ c wab, massOf_addSpec k a b wa, massOf_addSpec k a _ wa,
          massOf_addSpec k b c wb]
        simp only [or_assoc, add_assoc]

theorem addExt_assoc (x y z : List Rat) : addExt (addExt x y) z = addExt x (addExt y z) := by
  induction x generalizing y z with
  | nil => simp [addExt]
  | cons a x ih =>
    cases y with
    | nil => simp [addExt]
    | cons b y =>
      cases z with
      | nil => simp [addExt]
      | cons c z => simp [addExt, ih, add_assoc]

theorem ghg_add_assoc (a b c : Ghg) : (a.add b).add c = a.add (b.add c) := by
  simp [Ghg.add, add_assoc]

/-- Field-by-field equality, maps compared as maps. -/
structure Equiv (r s : Result) : Prop where
  duration : r.duration = s.duration
  ext : r.ext = s.ext
  loadRatio : r.loadRatio = s.loadRatio
  species : ∀ k, speciesView r.emis k = speciesView s.emis k
  detail : r.detail = s.detail
  fuel : ∀ k, massOf k r.fuel = massOf k s.fuel
  co2 : r.co2 = s.co2

/-- A result is *coherent* when it carries a generator load only… no: when a result that has a
duration also has a generator load (results of plants with generating sets). Without it the
time-weighted mean is not associative — see `extend_not_assoc_incoherent`. -/
def Coherent (a : Result) : Prop := a.loadRatio = none → a.duration = none

structure Good (a : Result) : Prop where
  pos : Pos a.duration
  emis : WFo a.emis

/-- Consecutive-period combination always succeeds on results with positive durations … -/
theorem extend_defined (a b : Result) (ha : Good a) (hb : Good b) :
    ∃ r, merge false a b = .ok r := by
  unfold merge
  rw [mergeDuration_extend, mergeLoad_extend _ _ _ _ ha.pos hb.pos, optMerge_ok, optMerge_ok]
  exact ⟨_, rfl⟩

theorem merge_extend_eq (a b : Result) (ha : Good a) (hb : Good b) :
    merge false a b = .ok (Result.mk (durE a.duration b.duration) (addExt a.ext b.ext)
      (loadE a.duration b.duration a.loadRatio b.loadRatio)
      (optE KV.addSpec a.emis b.emis) (optE (fun x y => x ++ y) a.detail b.detail)
      (add a.fuel b.fuel) (a.co2.add b.co2)) := by
  unfold merge
  rw [mergeDuration_extend, mergeLoad_extend _ _ _ _ ha.pos hb.pos, optMerge_ok, optMerge_ok]
  rfl

theorem good_extend {a b r : Result} (ha : Good a) (hb : Good b) (h : merge false a b = .ok r) :
    Good r := by
  rw [merge_extend_eq a b ha hb] at h
  injection h with h; subst h
  refine ⟨pos_durE ha.pos hb.pos, ?_⟩
  intro r hr
  cases hea : a.emis <;> cases heb : b.emis <;> simp only [hea, heb, optE] at hr
  · cases hr
  · exact hb.emis r (by rw [heb]; exact hr)
  · exact ha.emis r (by rw [hea]; exact hr)
  · injection hr with hr; subst hr
    exact wellFormed_addSpec _ _ (ha.emis _ hea) (hb.emis _ heb)

/-- … and is associative (coherent operands, positive durations). -/
theorem extend_assoc (a b c ab bc l r : Result) (ha : Good a) (hb : Good b) (hc : Good c)
    (ca : Coherent a) (cb : Coherent b) (cc : Coherent c)
    (h1 : merge false a b = .ok ab) (h2 : merge false ab c = .ok l)
    (h3 : merge false b c = .ok bc) (h4 : merge false a bc = .ok r) : Equiv l r := by
  have gab := good_extend ha hb h1
  have gbc := good_extend hb hc h3
  rw [merge_extend_eq a b ha hb] at h1; injection h1 with h1; subst h1
  rw [merge_extend_eq b c hb hc] at h3; injection h3 with h3; subst h3
  rw [merge_extend_eq _ c gab hc] at h2; injection h2 with h2; subst h2
  rw [merge_extend_eq a _ ha gbc] at h4; injection h4 with h4; subst h4
  refine ⟨?_, addExt_assoc _ _ _, loadE_assoc _ _ _ _ _ _ ha.pos hb.pos hc.pos ca cb cc,
    species_assoc _ _ _ ha.emis hb.emis, optE_assoc _ List.append_assoc _ _ _,
    fun k => C18.add_assoc k _ _ _, ghg_add_assoc _ _ _⟩
  show durE (durE a.duration b.duration) c.duration = durE a.duration (durE b.duration c.duration)
  cases a.duration <;> cases b.duration <;> cases c.duration <;> simp [durE, add_assoc]

/-- The empty result is neutral on both sides (either mode), as long as the operand's float
fields are the `n` the empty result was made for. -/
theorem neutral_left (f : Bool) (n : Nat) (a : Result) (hn : a.ext.length = n) :
    merge f (empty n) a = .ok a := by
  have : addExt (List.replicate n 0) a.ext = a.ext := by
    subst hn
    induction a.ext with
    | nil => rfl
    | cons x xs ih => simp [List.replicate_succ, addExt, ih]
  unfold merge empty
  simp only [mergeDuration, mergeLoad, optMerge, this, Ghg.add, zero_add]
  cases a; rfl

theorem neutral_right (f : Bool) (n : Nat) (a : Result) (hn : a.ext.length = n) :
    ∃ r, merge f a (empty n) = .ok r ∧ Equiv r a := by
  have : addExt a.ext (List.replicate n 0) = a.ext := by
    subst hn
    induction a.ext with
    | nil => rfl
    | cons x xs ih => simp [List.replicate_succ, addExt, ih]
  have hd : mergeDuration f a.duration none = .ok a.duration := by
    cases a.duration <;> simp [mergeDuration, optMerge]
  have hl : mergeLoad f a.duration none a.loadRatio none = .ok a.loadRatio := by
    cases a.loadRatio <;> simp [mergeLoad, optMerge]
  have he : optMerge (fun x y => Except.ok (KV.addSpec x y)) a.emis none = .ok a.emis := by
    cases a.emis <;> simp [optMerge]
  have hdt : optMerge (fun (x y : List Nat) => Except.ok (x ++ y)) a.detail none = .ok a.detail := by
    cases a.detail <;> simp [optMerge]
  refine ⟨_, by unfold merge empty; simp only [hd, hl, he, hdt, this]; rfl, ?_⟩
  exact ⟨rfl, rfl, rfl, fun _ => rfl, rfl, fun k => by rw [C18.add_empty_right], by simp [Ghg.add]⟩

/-! ### Same-period combination is associative whenever it is defined -/

theorem mergeDuration_freeze_ok {x y d : Option Rat} (h : mergeDuration true x y = .ok d) :
    d = optE (fun u _ => u) x y := by
  cases x <;> cases y <;> simp only [mergeDuration, optMerge, optE, if_true] at h ⊢
  · injection h with h; exact h.symm
  · injection h with h; exact h.symm
  · injection h with h; exact h.symm
  · rename_i u v
    by_cases huv : u = v
    · rw [if_pos huv] at h; simp only [Except.map] at h; injection h with h; exact h.symm
    · rw [if_neg huv] at h; simp [Except.map] at h

theorem mergeLoad_freeze (da db la lb : Option Rat) :
    mergeLoad true da db la lb = .ok (optE max la lb) := by
  cases la <;> cases lb <;> simp [mergeLoad, optMerge, optE, Except.map]

theorem freeze_assoc (a b c ab bc l r : Result)
    (ea : WFo a.emis) (eb : WFo b.emis)
    (h1 : merge true a b = .ok ab) (h2 : merge true ab c = .ok l)
    (h3 : merge true b c = .ok bc) (h4 : merge true a bc = .ok r) : Equiv l r := by
  obtain ⟨d1, l1, e1, t1, x1, f1, c1⟩ := merge_ok h1
  obtain ⟨d2, l2, e2, t2, x2, f2, c2⟩ := merge_ok h2
  obtain ⟨d3, l3, e3, t3, x3, f3, c3⟩ := merge_ok h3
  obtain ⟨d4, l4, e4, t4, x4, f4, c4⟩ := merge_ok h4
  have D1 := mergeDuration_freeze_ok d1; have D2 := mergeDuration_freeze_ok d2
  have D3 := mergeDuration_freeze_ok d3; have D4 := mergeDuration_freeze_ok d4
  rw [mergeLoad_freeze] at l1 l2 l3 l4
  rw [optMerge_ok] at e1 e2 e3 e4 t1 t2 t3 t4
  injection l1 with l1; injection l2 with l2; injection l3 with l3; injection l4 with l4
  injection e1 with e1; injection e2 with e2; injection e3 with e3; injection e4 with e4
  injection t1 with t1; injection t2 with t2; injection t3 with t3; injection t4 with t4
  refine ⟨?_, ?_, ?_, ?_, ?_, ?_, ?_⟩
  · rw [D2, D4, D1, D3]; exact optE_assoc _ (fun _ _ _ => rfl) _ _ _
  · rw [x2, x4, x1, x3]; exact addExt_assoc _ _ _
  · rw [← l2, ← l4, ← l1, ← l3]; exact optE_assoc _ max_assoc _ _ _
  · intro k; rw [← e2, ← e4, ← e1, ← e3]; exact species_assoc _ _ _ ea eb k
  · rw [← t2, ← t4, ← t1, ← t3]; exact optE_assoc _ List.append_assoc _ _ _
  · intro k; rw [f2, f4, f1, f3]; exact C18.add_assoc k _ _ _
  · rw [c2, c4, c1, c3]; exact ghg_add_assoc _ _ _

/-! ### Non-vacuity, and what the hypotheses exclude -/

def loadOf : Except String Result → Option Rat
  | .ok r => r.loadRatio
  | .error _ => none

def exA : Result := { duration := some 10, ext := [1], loadRatio := none }
def exB : Result := { duration := some 10, ext := [2], loadRatio := some (1/2), emis := some [(1, 3)] }
def exC : Result := { duration := some 10, ext := [4], loadRatio := some (7/10), emis := some [(2, 5)] }

/-- The hypotheses of `extend_assoc` are satisfiable (two coherent operands with disjoint
species), and the species of both operands survive. -/
def emisOf : Except String Result → Option (KV.Rec Nat Rat)
  | .ok r => r.emis
  | .error _ => none

example : Coherent exB ∧ Coherent exC ∧ emisOf (merge false exB exC) = some [(1, 3), (2, 5)] ∧
    loadOf (merge false exB exC) = some (3/5) := by
  refine ⟨by simp [Coherent, exB], by simp [Coherent, exC], by decide +kernel, by decide +kernel⟩

/-- `Coherent` cannot be dropped: an operand with a duration but without generator load
(`exA`) makes the consecutive-period combination depend on grouping (17/30 vs 3/5).
This is the behaviour of the implementation too (known finding D18). -/
theorem extend_not_assoc_incoherent :
    loadOf (merge false exA exB >>= fun ab => merge false ab exC) = some (17/30) ∧
    loadOf (merge false exB exC >>= fun bc => merge false exA bc) = some (3/5) := by
  constructor <;> decide +kernel

/-- The species merge as found before the repair of D6 dropped species present only in the
right operand, and failed (`KeyError`) when the right operand lacked a left one. -/
theorem legacy_species_merge_drops :
    mergeEmisLegacy [(1, 3)] [(1, 4), (2, 5)] = some [(1, 7)] ∧
    mergeEmisLegacy [(1, 3), (2, 5)] [(1, 4)] = none := by
  constructor <;> decide +kernel

end Feems.Props.C19
