/-
C14 — protobuf result export carries exactly the figures of the result.
`fields_covered` is about the lists GENERATED from `dataclasses.fields(FEEMSResult)`, the compiled
descriptors of `feems_result.proto`, `_COLUMN_NAMES` and the two `column_names` lists of `node.py`.
-/
import FeemsProofs.C17
import FeemsModel.Model.Export

set_option linter.unusedSimpArgs false
set_option linter.unusedVariables false

namespace Feems.Props.C14
open Feems Feems.Export Feems.Generated.ResultFields Feems.Fuel

/-- **Fields covered.** Every float field of `FEEMSResult` has a same-named `double` field in the
message; the explicitly handled fields exist; every column of both detail tables (and the node-id
columns the systems add) maps to a field of `ResultPerComponent`. -/
theorem fields_covered :
    (∀ f ∈ floatFields, f ∈ protoDoubles) ∧
    ("duration_s" ∈ protoDoubles ∧ "nox_emission_total_kg" ∈ protoDoubles) ∧
    (∀ f ∈ ["multi_fuel_consumption_total_kg", "co2_emission_total_kg", "detailed_result"], f ∈ protoResultFields.map (·.1)) ∧
    (∀ cols ∈ detailColumns, ∀ c ∈ cols ++ addedColumns,
      ∃ m ∈ columnMap, m.1 = c ∧ m.2 ∈ protoComponentFields.map (·.1)) ∧
    otherFields = ["duration_s", "load_ratio_genset", "total_emission_kg", "detail_result",
      "multi_fuel_consumption_total_kg", "co2_emission_total_kg"] := by
  refine ⟨by decide, by decide, by decide, by decide, by decide⟩

/-- **Read-back, float fields.** With the generated field lists nothing is skipped: the message
carries every float field with its value. -/
theorem readback_scalars (r : Result.Result) :
    (exportResult floatFields r).scalars = floatFields.zip r.ext := by
  unfold exportResult
  simp only
  apply List.filter_eq_self.mpr
  intro nv hnv
  have hmem : nv.1 ∈ floatFields := (List.of_mem_zip hnv).1
  exact List.contains_iff_mem.mpr (fields_covered.1 nv.1 hmem)

/-- **Read-back, the rest.** Duration, per-kind fuel masses, the CO2-equivalent components
(well-to-wake being the sums) and NOx. -/
theorem readback_rest (names : List String) (r : Result.Result) (d : Rat) (hd : r.duration = some d) :
    (exportResult names r).duration = d ∧ (exportResult names r).fuels = r.fuel ∧
    (exportResult names r).co2.wellToTank = r.co2.wtt ∧ (exportResult names r).co2.tankToWake = r.co2.ttw ∧
    (exportResult names r).co2.wellToWake = r.co2.ttw + r.co2.wtt ∧
    (exportResult names r).co2.tankToWakeNoSlip = r.co2.ttwNoSlip ∧
    (exportResult names r).co2.wellToWakeNoSlip = r.co2.ttwNoSlip + r.co2.wtt ∧
    (exportResult names r).detail = r.detail.getD [] := by
  simp [exportResult, hd, co2Msg]

theorem readback_nox (names : List String) (r : Result.Result) :
    (exportResult names r).nox = match r.emis with | none => 0 | some e => KV.massOf noxKey e := rfl

/-- A field without a same-named message field would be dropped silently — which is why
`fields_covered` matters. -/
theorem dropped_without_counterpart :
    (exportResult ["not_in_the_message"] { ext := [5] }).scalars = [] := by
  decide +kernel

theorem starts_length (acc : Rat) (l : List Rat) : (starts acc l).length = l.length := by
  induction l generalizing acc with
  | nil => rfl
  | cons x l ih => simp [starts, ih]

theorem starts_get (acc : Rat) (l : List Rat) (k : Nat) (h : k < l.length) :
    (starts acc l)[k]? = some (acc + rsum (l.take k)) := by
  induction l generalizing acc k with
  | nil => simp at h
  | cons x l ih =>
    cases k with
    | zero => simp [starts]
    | succ k =>
      simp only [starts, List.getElem?_cons_succ, List.take_succ_cons, rsum_cons]
      rw [ih (acc + x) k (by simpa using h)]
      congr 1; ring

/-- **Time base of the series.** Per-interval base: one stamp per sample, the first at 0, and stamp `k+1` minus
stamp `k` is interval `k` — the interval sample `k` is held for; scalar base: equidistant; input series: its
own epochs. -/
theorem time_base_series (dts : List Rat) :
    (timeBase dts.length (.series dts)).length = dts.length ∧
    (∀ h : 0 < dts.length, (timeBase dts.length (.series dts))[0]? = some 0) ∧
    ∀ k (h : k + 1 < dts.length), ((timeBase dts.length (.series dts))[k + 1]?).bind (fun b =>
      ((timeBase dts.length (.series dts))[k]?).map fun a => b - a) = some (dts[k]'(by omega)) := by
  refine ⟨by simp [timeBase, starts_length], ?_, ?_⟩
  · intro h; simp only [timeBase]; rw [starts_get 0 dts 0 h]; simp
  · intro k h
    simp only [timeBase]
    rw [starts_get 0 dts (k + 1) h, starts_get 0 dts k (by omega)]
    simp only [Option.map_some, Option.bind_some, zero_add]
    congr 1
    rw [List.take_succ, rsum_append]
    simp [List.getElem?_eq_getElem (show k < dts.length by omega), rsum]

/-- The two representations of a constant step agree: `n` equal intervals give the stamps of the scalar base. -/
theorem time_base_constant_step (n : Nat) (dt : Rat) :
    timeBase n (.series (List.replicate n dt)) = timeBase n (.scalar dt) := by
  apply List.ext_getElem?
  intro k
  by_cases h : k < n
  · simp only [timeBase]
    rw [starts_get 0 _ k (by simpa using h)]
    simp only [List.take_replicate, zero_add, List.getElem?_map, List.getElem?_range h, Option.map_some,
      min_eq_left h.le]
    congr 1
    induction k with
    | zero => simp [rsum]
    | succ k ih =>
      rw [List.replicate_succ, rsum_cons, ih (by omega)]; push_cast; ring
  · have h1 : (timeBase n (.series (List.replicate n dt))).length ≤ k := by simp [timeBase, starts_length]; omega
    have h2 : (timeBase n (.scalar dt)).length ≤ k := by simp [timeBase]; omega
    rw [List.getElem?_eq_none h1, List.getElem?_eq_none h2]

/-- As found (D45): intervals 60, 120, 30 s were stamped 60, 180, 210 instead of 0, 60, 180. -/
theorem time_base_legacy_shifted :
    timeBaseLegacy 3 (.series [60, 120, 30]) = [60, 180, 210] ∧ timeBase 3 (.series [60, 120, 30]) = [0, 60, 180] := by
  decide +kernel

theorem time_base_scalar (n : Nat) (dt : Rat) (k : Nat) (h : k + 1 < n) :
    (timeBase n (.scalar dt))[k + 1]? = some (((k : Rat) + 1) * dt) ∧ (timeBase n (.scalar dt)).length = n := by
  simp [timeBase, h]

theorem time_base_input (n : Nat) (epochs : List Rat) (h : n ≤ epochs.length) :
    timeBaseFromInput n epochs = epochs.take n ∧ (timeBaseFromInput n epochs).length = n := by
  simp [timeBaseFromInput, h]

/-! ### Per-component series -/

/-- **Every record carries its own component's series.** When no two collected series share name,
node number and component type — which the configuration rules guarantee: names are unique within
one category of a switchboard / shaft line, and the type determines the category — the series
attached to a component's record is that component's. -/
theorem series_own (items : List SeriesItem) (h : (items.map SeriesItem.key).Nodup) :
    ∀ s ∈ items, seriesFor items s.name s.node s.type = some s := by
  induction items with
  | nil => intro s hs; cases hs
  | cons x xs ih =>
    intro s hs
    have hx : x.key ∉ xs.map SeriesItem.key := (List.nodup_cons.mp h).1
    have hxs : (xs.map SeriesItem.key).Nodup := (List.nodup_cons.mp h).2
    rcases List.mem_cons.mp hs with rfl | hs'
    · simp [seriesFor, List.find?_cons]
    · have hne : ¬ (x.name = s.name ∧ x.node = s.node ∧ x.type = s.type) := by
        rintro ⟨h1, h2, h3⟩
        apply hx
        have : x.key = s.key := by simp [SeriesItem.key, h1, h2, h3]
        rw [this]; exact List.mem_map_of_mem hs'
      have hb : (decide (x.name = s.name) && decide (x.node = s.node) && decide (x.type = s.type)) = false := by
        by_contra hc
        simp only [Bool.not_eq_false, Bool.and_eq_true, decide_eq_true_eq] at hc
        exact hne ⟨hc.1.1, hc.1.2, hc.2⟩
      have := ih hxs s hs'
      simp only [seriesFor, List.find?_cons, hb] at this ⊢
      exact this

/-- The lookup as found (D22), by name and node number only, hands the battery of a switchboard
the series of the generating set of the same name. -/
theorem series_legacy_wrong :
    let g : SeriesItem := ⟨"No. 1", 1, "GENSET", [500, 460]⟩
    let b : SeriesItem := ⟨"No. 1", 1, "BATTERY", [97, -51]⟩
    seriesForLegacy [g, b] b.name b.node = some g ∧ seriesFor [g, b] b.name b.node b.type = some b := by
  constructor <;> decide +kernel

end Feems.Props.C14
