/-
C14 — protobuf result export carries exactly the figures of the result.
`fields_covered` is about the lists GENERATED from `dataclasses.fields(FEEMSResult)`, the compiled
descriptors of `feems_result.proto`, `_COLUMN_NAMES` and the two `column_names` lists of `node.py`.
-/
import FeemsProofs.C17
import FeemsModel.Model.Export

set_option linter.unusedSimpArgs false
set_option linter.unusedVariables false

namespace Feems.Props.C14
open Feems Feems.Export Feems.Generated.ResultFields Feems.Fuel

/-- **Fields covered.** Every float field of `FEEMSResult` has a same-named `double` field in the
message; the explicitly handled fields exist; every column of both detail tables (and the node-id
columns the systems add) maps to a field of `ResultPerComponent`. -/
theorem fields_covered :
    (∀ f ∈ floatFields, f ∈ protoDoubles) ∧
    ("duration_s" ∈ protoDoubles ∧ "nox_emission_total_kg" ∈ protoDoubles) ∧
    (∀ f ∈ ["multi_fuel_consumption_total_kg", "co2_emission_total_kg", "detailed_result"], f ∈ protoResultFields.map (·.1)) ∧
    (∀ cols ∈ detailColumns, ∀ c ∈ cols ++ addedColumns,
      ∃ m ∈ columnMap, m.1 = c ∧ m.2 ∈ protoComponentFields.map (·.1)) ∧
    otherFields = ["duration_s", "load_ratio_genset", "total_emission_kg", "detail_result",
      "multi_fuel_consumption_total_kg", "co2_emission_total_kg"] := by
  refine ⟨by decide, by decide, by decide, by decide, by decide⟩

/-- **Read-back, float fields.** With the generated field lists nothing is skipped: the message
carries every float field with its value. -/
theorem readback_scalars (r : Result.Result) :
    (exportResult floatFields r).scalars = floatFields.zip r.ext := by
  unfold exportResult
  simp only
  apply List.filter_eq_self.mpr
  intro nv hnv
  have hmem : nv.1 ∈ floatFields := (List.of_mem_zip hnv).1
  exact List.contains_iff_mem.mpr (fields_covered.1 nv.1 hmem)

/-- **Read-back, the rest.** Duration, per-kind fuel masses, the CO2-equivalent components
(well-to-wake being the sums) and NOx. -/
theorem readback_rest (names : List String) (r : Result.Result) (d : Rat) (hd : r.duration = some d) :
    (exportResult names r).duration = d ∧ (exportResult names r).fuels = r.fuel ∧
    (exportResult names r).co2.wellToTank = r.co2.wtt ∧ (exportResult names r).co2.tankToWake = r.co2.ttw ∧
    (exportResult names r).co2.wellToWake = r.co2.ttw + r.co2.wtt ∧
    (exportResult names r).co2.tankToWakeNoSlip = r.co2.ttwNoSlip ∧
    (exportResult names r).co2.wellToWakeNoSlip = r.co2.ttwNoSlip + r.co2.wtt ∧
    (exportResult names r).detail = r.detail.getD [] := by
  simp [exportResult, hd, co2Msg]

theorem readback_nox (names : List String) (r : Result.Result) :
    (exportResult names r).nox = match r.emis with | none => 0 | some e => KV.massOf noxKey e := rfl

/-- A field without a same-named message field would be dropped silently — which is why
`fields_covered` matters. -/
theorem dropped_without_counterpart :
    (exportResult ["not_in_the_message"] { ext := [5] }).scalars = [] := by
  decide +kernel

/-- **Time base of the series.** Per-interval base: stamp `k+1` minus stamp `k` is interval `k+1`
(the stamps are the running sums); scalar base: equidistant; input series: its own epochs. -/
theorem time_base_series (dts : List Rat) :
    (timeBase dts.length (.series dts)).length = dts.length ∧
    ∀ k (h : k + 1 < dts.length), ((timeBase dts.length (.series dts))[k + 1]?).bind (fun b =>
      ((timeBase dts.length (.series dts))[k]?).map fun a => b - a) = some dts[k + 1] := by
  constructor
  · simp [timeBase, C17.cumsum_length]
  · intro k h
    simp only [timeBase]
    have gen : ∀ (acc : Rat) (l : List Rat) (k : Nat) (h : k + 1 < l.length),
        ((Integrate.cumsum acc l)[k + 1]?).bind (fun b => ((Integrate.cumsum acc l)[k]?).map fun a => b - a) = some l[k + 1] := by
      intro acc l
      induction l generalizing acc with
      | nil => intro k h; simp at h
      | cons x l ih =>
        intro k h
        cases k with
        | zero =>
          cases l with
          | nil => simp at h
          | cons y l => simp [Integrate.cumsum]
        | succ k =>
          simp only [Integrate.cumsum, List.getElem?_cons_succ, List.getElem_cons_succ]
          exact ih (acc + x) k (by simpa using h)
    exact gen 0 dts k h

theorem time_base_scalar (n : Nat) (dt : Rat) (k : Nat) (h : k + 1 < n) :
    (timeBase n (.scalar dt))[k + 1]? = some (((k : Rat) + 1) * dt) ∧ (timeBase n (.scalar dt)).length = n := by
  simp [timeBase, h]

theorem time_base_input (n : Nat) (epochs : List Rat) (h : n ≤ epochs.length) :
    timeBaseFromInput n epochs = epochs.take n ∧ (timeBaseFromInput n epochs).length = n := by
  simp [timeBaseFromInput, h]

/-! ### Per-component series -/

/-- **Every record carries its own component's series.** When no two collected series share name,
node number and component type — which the configuration rules guarantee: names are unique within
one category of a switchboard / shaft line, and the type determines the category — the series
attached to a component's record is that component's. -/
theorem series_own (items : List SeriesItem) (h : (items.map SeriesItem.key).Nodup) :
    ∀ s ∈ items, seriesFor items s.name s.node s.type = some s := by
  induction items with
  | nil => intro s hs; cases hs
  | cons x xs ih =>
    intro s hs
    have hx : x.key ∉ xs.map SeriesItem.key := (List.nodup_cons.mp h).1
    have hxs : (xs.map SeriesItem.key).Nodup := (List.nodup_cons.mp h).2
    rcases List.mem_cons.mp hs with rfl | hs'
    · simp [seriesFor, List.find?_cons]
    · have hne : ¬ (x.name = s.name ∧ x.node = s.node ∧ x.type = s.type) := by
        rintro ⟨h1, h2, h3⟩
        apply hx
        have : x.key = s.key := by simp [SeriesItem.key, h1, h2, h3]
        rw [this]; exact List.mem_map_of_mem hs'
      have hb : (decide (x.name = s.name) && decide (x.node = s.node) && decide (x.type = s.type)) = false := by
        by_contra hc
        simp only [Bool.not_eq_false, Bool.and_eq_true, decide_eq_true_eq] at hc
        exact hne ⟨hc.1.1, hc.1.2, hc.2⟩
      have := ih hxs s hs'
      simp only [seriesFor, List.find?_cons, hb] at this ⊢
      exact this

/-- The lookup as found (D22), by name and node number only, hands the battery of a switchboard
the series of the generating set of the same name. -/
theorem series_legacy_wrong :
    let g : SeriesItem := ⟨"No. 1", 1, "GENSET", [500, 460]⟩
    let b : SeriesItem := ⟨"No. 1", 1, "BATTERY", [97, -51]⟩
    seriesForLegacy [g, b] b.name b.node = some g ∧ seriesFor [g, b] b.name b.node b.type = some b := by
  constructor <;> decide +kernel

end Feems.Props.C14
