/-
C10 — system totals equal the sum of component figures, in any order.
The accumulation is a left fold of the same-period merge of C19 over the component results
(then over the node results); the theorems say that every extensive figure of the fold is the sum
of the components' figures, hence independent of the order of the list.
-/
import FeemsProofs.C19
import FeemsProofs.C10Component

set_option linter.unusedSimpArgs false
set_option linter.unusedVariables false

namespace Feems.Props.C10
open Feems Feems.KV Feems.Fuel Feems.Result Feems.Props.C19

/-- Species mass in an optional species dictionary (0 when absent). -/
def specMass (k : Nat) : Option (KV.Rec Nat Rat) → Rat
  | none => 0
  | some r => massOf k r

/-- A result whose species dictionary is well formed (a Python `dict`: no species listed twice).
Nothing is asked of the fuel list: it may list a kind twice (main and pilot fuel of one kind). -/
structure WF (a : Result) : Prop where
  emis : WFo a.emis

theorem merge_freeze_eq {a b r : Result} (h : merge true a b = .ok r) :
    r.ext = addExt a.ext b.ext ∧ r.fuel = add a.fuel b.fuel ∧ r.co2 = a.co2.add b.co2 ∧
    r.emis = optE KV.addSpec a.emis b.emis ∧ r.detail = optE (fun x y => x ++ y) a.detail b.detail ∧
    r.loadRatio = optE max a.loadRatio b.loadRatio := by
  obtain ⟨_, l, e, t, x, f, c⟩ := merge_ok h
  rw [mergeLoad_freeze] at l; rw [optMerge_ok] at e t
  injection l with l; injection e with e; injection t with t
  exact ⟨x, f, c, e.symm, t.symm, l.symm⟩

theorem wf_merge {a b r : Result} (ha : WF a) (hb : WF b) (h : merge true a b = .ok r) : WF r := by
  obtain ⟨_, hf, _, he, _, _⟩ := merge_freeze_eq h
  refine ⟨?_⟩
  intro e hr
  rw [he] at hr
  cases hea : a.emis <;> cases heb : b.emis <;> simp only [hea, heb, optE] at hr
  · cases hr
  · exact hb.emis e (by rw [heb]; exact hr)
  · exact ha.emis e (by rw [hea]; exact hr)
  · injection hr with hr; subst hr
    exact wellFormed_addSpec _ _ (ha.emis _ hea) (hb.emis _ heb)

theorem specMass_optE (k : Nat) (a b : Option (KV.Rec Nat Rat)) (ha : WFo a) :
    specMass k (optE KV.addSpec a b) = specMass k a + specMass k b := by
  cases a <;> cases b <;> simp [optE, specMass]
  exact massOf_addSpec k _ _ (ha _ rfl)

/-- Figures of a result that the totals are made of, for a key: float field `i`, fuel kind,
species, and the three CO2 components. -/
structure Figures where
  ext : Nat → Rat
  fuel : Kind → Rat
  species : Nat → Rat
  ttw : Rat
  wtt : Rat
  ttwNoSlip : Rat

def figures (r : Result) : Figures :=
  ⟨fun i => r.ext.getD i 0, fun k => massOf k r.fuel, fun k => specMass k r.emis, r.co2.ttw, r.co2.wtt, r.co2.ttwNoSlip⟩

theorem addExt_getD (xs ys : List Rat) (h : xs.length = ys.length) (i : Nat) :
    (addExt xs ys).getD i 0 = xs.getD i 0 + ys.getD i 0 := by
  induction xs generalizing ys i with
  | nil => cases ys with
    | nil => simp [addExt]
    | cons y ys => cases h
  | cons x xs ih => cases ys with
    | nil => cases h
    | cons y ys =>
      cases i with
      | zero => simp [addExt]
      | succ i => simpa [addExt] using ih ys (by simpa using h) i

theorem addExt_len (xs ys : List Rat) (h : xs.length = ys.length) : (addExt xs ys).length = xs.length :=
  C19.addExt_length xs ys h

/-- One merge adds every figure. -/
theorem figures_merge {a b r : Result} (ha : WF a) (h : merge true a b = .ok r) (hl : a.ext.length = b.ext.length) :
    (∀ i, (figures r).ext i = (figures a).ext i + (figures b).ext i) ∧
    (∀ k, (figures r).fuel k = (figures a).fuel k + (figures b).fuel k) ∧
    (∀ k, (figures r).species k = (figures a).species k + (figures b).species k) ∧
    (figures r).ttw = (figures a).ttw + (figures b).ttw ∧ (figures r).wtt = (figures a).wtt + (figures b).wtt ∧
    (figures r).ttwNoSlip = (figures a).ttwNoSlip + (figures b).ttwNoSlip := by
  obtain ⟨hx, hf, hc, he, _, _⟩ := merge_freeze_eq h
  refine ⟨fun i => ?_, fun k => ?_, fun k => ?_, ?_, ?_, ?_⟩
  · simp only [figures, hx]; exact addExt_getD _ _ hl i
  · simp only [figures, hf]; exact C18.add_mass k _ _
  · simp only [figures, he]; exact specMass_optE k _ _ ha.emis
  · simp only [figures, hc]; rfl
  · simp only [figures, hc]; rfl
  · simp only [figures, hc]; rfl

/-- **Totals = sums.** Folding the component results into an accumulator adds, to every figure
of the accumulator, the sum of that figure over the components. -/
theorem fold_eq_sum (n : Nat) (cs : List Result) : ∀ (acc r : Result), WF acc → acc.ext.length = n →
    (∀ c ∈ cs, WF c ∧ c.ext.length = n) → foldFrom acc cs = .ok r →
    WF r ∧ r.ext.length = n ∧
    (∀ i, (figures r).ext i = (figures acc).ext i + (cs.map fun c => (figures c).ext i).sum) ∧
    (∀ k, (figures r).fuel k = (figures acc).fuel k + (cs.map fun c => (figures c).fuel k).sum) ∧
    (∀ k, (figures r).species k = (figures acc).species k + (cs.map fun c => (figures c).species k).sum) ∧
    (figures r).ttw = (figures acc).ttw + (cs.map fun c => (figures c).ttw).sum ∧
    (figures r).wtt = (figures acc).wtt + (cs.map fun c => (figures c).wtt).sum ∧
    (figures r).ttwNoSlip = (figures acc).ttwNoSlip + (cs.map fun c => (figures c).ttwNoSlip).sum := by
  induction cs with
  | nil =>
    intro acc r hw hl _ h
    simp only [foldFrom, List.foldlM_nil, pure, Except.pure] at h
    injection h with h; subst h
    simp [hw, hl]
  | cons c cs ih =>
    intro acc r hw hl hcs h
    simp only [foldFrom, List.foldlM_cons, bind, Except.bind] at h
    cases hm : merge true acc c with
    | error e => rw [hm] at h; cases h
    | ok m =>
      rw [hm] at h
      have hc := hcs c (by simp)
      have hwm : WF m := wf_merge hw hc.1 hm
      have hlm : m.ext.length = n := by
        rw [(merge_freeze_eq hm).1, addExt_len _ _ (hl.trans hc.2.symm)]; exact hl
      obtain ⟨f1, f2, f3, f4, f5, f6⟩ := figures_merge hw hm (hl.trans hc.2.symm)
      obtain ⟨r1, r2, g1, g2, g3, g4, g5, g6⟩ := ih m r hwm hlm (fun x hx => hcs x (List.mem_cons_of_mem _ hx)) h
      refine ⟨r1, r2, fun i => ?_, fun k => ?_, fun k => ?_, ?_, ?_, ?_⟩
      · rw [g1 i, f1 i, List.map_cons, List.sum_cons]; ring
      · rw [g2 k, f2 k, List.map_cons, List.sum_cons]; ring
      · rw [g3 k, f3 k, List.map_cons, List.sum_cons]; ring
      · rw [g4, f4, List.map_cons, List.sum_cons]; ring
      · rw [g5, f5, List.map_cons, List.sum_cons]; ring
      · rw [g6, f6, List.map_cons, List.sum_cons]; ring

theorem wf_empty (n : Nat) : WF (empty n) ∧ (empty n).ext.length = n := by
  refine ⟨⟨?_⟩, by simp [empty]⟩
  intro r h; simp [empty] at h

theorem figures_empty (n : Nat) : (∀ i, (figures (empty n)).ext i = 0) ∧ (∀ k, (figures (empty n)).fuel k = 0) ∧
    (∀ k, (figures (empty n)).species k = 0) ∧ (figures (empty n)).ttw = 0 ∧ (figures (empty n)).wtt = 0 ∧
    (figures (empty n)).ttwNoSlip = 0 := by
  refine ⟨fun i => ?_, fun k => rfl, fun k => rfl, rfl, rfl, rfl⟩
  simp only [figures, empty]
  by_cases h : i < n
  · simp [List.getD_eq_getElem?_getD, h]
  · simp [List.getD_eq_getElem?_getD, h]

/-- The totals of a node (switchboard / shaft line): every figure is the sum over its components. -/
theorem accumulate_eq_sum (n : Nat) (cs : List Result) (r : Result)
    (hcs : ∀ c ∈ cs, WF c ∧ c.ext.length = n) (h : accumulate n cs = .ok r) :
    (∀ i, (figures r).ext i = (cs.map fun c => (figures c).ext i).sum) ∧
    (∀ k, (figures r).fuel k = (cs.map fun c => (figures c).fuel k).sum) ∧
    (∀ k, (figures r).species k = (cs.map fun c => (figures c).species k).sum) ∧
    (figures r).ttw = (cs.map fun c => (figures c).ttw).sum ∧
    (figures r).wtt = (cs.map fun c => (figures c).wtt).sum ∧
    (figures r).ttwNoSlip = (cs.map fun c => (figures c).ttwNoSlip).sum := by
  obtain ⟨_, _, g1, g2, g3, g4, g5, g6⟩ := fold_eq_sum n cs (empty n) r (wf_empty n).1 (wf_empty n).2 hcs h
  obtain ⟨e1, e2, e3, e4, e5, e6⟩ := figures_empty n
  exact ⟨fun i => by rw [g1, e1, zero_add], fun k => by rw [g2, e2, zero_add], fun k => by rw [g3, e3, zero_add],
    by rw [g4, e4, zero_add], by rw [g5, e5, zero_add], by rw [g6, e6, zero_add]⟩

/-- **Order-free.** Listing the components in another order gives the same totals. -/
theorem perm (n : Nat) (cs cs' : List Result) (r r' : Result) (hp : cs.Perm cs')
    (hcs : ∀ c ∈ cs, WF c ∧ c.ext.length = n) (h : accumulate n cs = .ok r) (h' : accumulate n cs' = .ok r') :
    (∀ i, (figures r).ext i = (figures r').ext i) ∧ (∀ k, (figures r).fuel k = (figures r').fuel k) ∧
    (∀ k, (figures r).species k = (figures r').species k) ∧ (figures r).ttw = (figures r').ttw ∧
    (figures r).wtt = (figures r').wtt ∧ (figures r).ttwNoSlip = (figures r').ttwNoSlip := by
  have hcs' : ∀ c ∈ cs', WF c ∧ c.ext.length = n := fun c hc => hcs c (hp.mem_iff.mpr hc)
  obtain ⟨a1, a2, a3, a4, a5, a6⟩ := accumulate_eq_sum n cs r hcs h
  obtain ⟨b1, b2, b3, b4, b5, b6⟩ := accumulate_eq_sum n cs' r' hcs' h'
  refine ⟨fun i => ?_, fun k => ?_, fun k => ?_, ?_, ?_, ?_⟩
  · rw [a1, b1]; exact (hp.map _).sum_eq
  · rw [a2, b2]; exact (hp.map _).sum_eq
  · rw [a3, b3]; exact (hp.map _).sum_eq
  · rw [a4, b4]; exact (hp.map _).sum_eq
  · rw [a5, b5]; exact (hp.map _).sum_eq
  · rw [a6, b6]; exact (hp.map _).sum_eq

/-- **System = sum over nodes = sum over all components.** -/
theorem system_eq_sum_nodes (n : Nat) (nodes : List (List Result)) (r : Result)
    (hcs : ∀ cs ∈ nodes, ∀ c ∈ cs, WF c ∧ c.ext.length = n) (h : accumulateNested n nodes = .ok r) :
    ∃ rs : List Result, nodes.mapM (accumulate n) = .ok rs ∧
      (∀ k, (figures r).fuel k = (rs.map fun x => (figures x).fuel k).sum) ∧
      (∀ i, (figures r).ext i = (rs.map fun x => (figures x).ext i).sum) ∧
      (∀ k, (figures r).species k = (rs.map fun x => (figures x).species k).sum) ∧
      (figures r).ttw = (rs.map fun x => (figures x).ttw).sum ∧ (figures r).wtt = (rs.map fun x => (figures x).wtt).sum := by
  unfold accumulateNested at h
  cases hm : nodes.mapM (accumulate n) with
  | error e => rw [hm] at h; simp [bind, Except.bind] at h
  | ok rs =>
    rw [hm] at h
    simp only [bind, Except.bind] at h
    refine ⟨rs, rfl, ?_⟩
    -- every node result is well formed with n float fields
    have hrs : ∀ x ∈ rs, WF x ∧ x.ext.length = n := by
      intro x hx
      have : ∀ (ns : List (List Result)) (out : List Result), ns.mapM (accumulate n) = .ok out →
          (∀ cs ∈ ns, ∀ c ∈ cs, WF c ∧ c.ext.length = n) → ∀ x ∈ out, WF x ∧ x.ext.length = n := by
        intro ns
        induction ns with
        | nil => intro out ho _ x hx; simp [List.mapM_nil, pure, Except.pure] at ho; subst ho; cases hx
        | cons cs ns ih =>
          intro out ho hall x hx
          rw [List.mapM_cons] at ho
          simp only [bind, Except.bind] at ho
          cases ha : accumulate n cs with
          | error e => rw [ha] at ho; cases ho
          | ok a =>
            rw [ha] at ho
            cases hb : ns.mapM (accumulate n) with
            | error e => rw [hb] at ho; cases ho
            | ok b =>
              rw [hb] at ho
              simp only [pure, Except.pure] at ho
              injection ho with ho; subst ho
              rcases List.mem_cons.mp hx with rfl | hx
              · obtain ⟨w, l, _⟩ := fold_eq_sum n cs (empty n) x (wf_empty n).1 (wf_empty n).2 (hall cs (by simp)) ha
                exact ⟨w, l⟩
              · exact ih b hb (fun cs' h' => hall cs' (List.mem_cons_of_mem _ h')) x hx
      exact this nodes rs hm hcs x hx
    obtain ⟨a1, a2, a3, a4, a5, _⟩ := accumulate_eq_sum n rs r hrs h
    exact ⟨a2, a1, a3, a4, a5⟩

/-- Detail rows: the node's table is the concatenation of its components' rows, in list order. -/
theorem detail_rows {a b r : Result} (h : merge true a b = .ok r) :
    r.detail = optE (fun x y => x ++ y) a.detail b.detail := (merge_freeze_eq h).2.2.2.2.1

/-! ### Non-vacuity: two fuel kinds, and a species only one component emits -/

def c1 : Result := { duration := some 0, ext := [1, 2], emis := some [(2, 5)], fuel := [(⟨0, 1, 2⟩, 10)] }
def c2 : Result := { duration := some 0, ext := [3, 4], emis := some [(2, 1), (6, 7)], fuel := [(⟨2, 1, 2⟩, 4), (⟨0, 1, 2⟩, 1)] }

def figOf (f : Result → Rat) : Except String Result → Option Rat
  | .ok r => some (f r)
  | .error _ => none

example : figOf (fun r => (figures r).fuel ⟨0, 1, 2⟩) (accumulate 2 [c1, c2]) = some 11 ∧
    figOf (fun r => (figures r).species 6) (accumulate 2 [c1, c2]) = some 7 ∧
    figOf (fun r => (figures r).ext 1) (accumulate 2 [c1, c2]) = some 6 := by
  refine ⟨?_, ?_, ?_⟩ <;> decide +kernel

end Feems.Props.C10
