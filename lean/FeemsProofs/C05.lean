/-
C05 — hybrid system: one PTI/PTO, consistent on the electric and the shaft side.
`f`, `g` are the two conversions of the machine (C06); `ε`-accuracy of the default interpolated
inverse is a hypothesis here (C06 proves 1 % under the knot contract; 0.5 % is validated per case).
Domain: the PTI/PTO is in given-power mode on the electric side (with the balancing mode the second
electric pass would re-balance its input — the "balancing unit" role, not "the PTI carries the shaft").
-/
import FeemsProofs.C06
import FeemsModel.Model.Hybrid

set_option linter.unusedSimpArgs false
set_option linter.unusedVariables false

namespace Feems.Props.C05
open Feems Feems.Hybrid Feems.Comp

variable (f g : Rat → Rat) (x0 L : Rat)

/-- Final state with a second electric pass (some step of the series is full-PTI). -/
theorem final_with_second_pass (full : Bool) :
    (step f g x0 L full true).elecIn = f (if full then L else g x0) ∧
    (step f g x0 L full true).shaftOut = g (f (if full then L else g x0)) := by
  simp [step]

/-- Final state without a second pass. -/
theorem final_without_second_pass :
    (step f g x0 L false false).elecIn = f (g x0) ∧ (step f g x0 L false false).shaftOut = g x0 := by
  simp [step]

/-- **Electric side.** The electric balance (C01) was computed with `elecUsed`; the PTI/PTO's final
electrical power differs from it by the round-trip error of the machine, and not at all when the
second pass ran. -/
theorem electric_consistency (full anyFull : Bool) :
    (step f g x0 L full anyFull).elecIn - (step f g x0 L full anyFull).elecUsed =
      if anyFull then 0 else f (if full then L else g x0) - x0 := by
  cases anyFull <;> simp [step]

/-- **Shaft side.** The shaft balance (C04) was computed with `shaftUsed`; the final shaft power
differs from it by the round-trip error, and not at all without a second pass. -/
theorem shaft_consistency (full anyFull : Bool) :
    (step f g x0 L full anyFull).shaftOut - (step f g x0 L full anyFull).shaftUsed =
      if anyFull then g (f (if full then L else g x0)) - (if full then L else g x0) else 0 := by
  cases anyFull <;> simp [step]

/-- Hence both balances hold to within the machine's round-trip accuracy `ε`. -/
theorem balances_within (ε : Rat) (full anyFull : Bool)
    (hfg : ∀ x, |f (g x) - x| ≤ ε) (hgf : ∀ p, |g (f p) - p| ≤ ε) (hfull : full = true → anyFull = true) :
    |(step f g x0 L full anyFull).elecIn - (step f g x0 L full anyFull).elecUsed| ≤ ε ∧
    |(step f g x0 L full anyFull).shaftOut - (step f g x0 L full anyFull).shaftUsed| ≤ ε := by
  have hε : 0 ≤ ε := le_trans (abs_nonneg _) (hfg 0)
  rw [electric_consistency, shaft_consistency]
  cases anyFull
  · have : full = false := by cases full <;> simp_all
    subst this
    simp only [Bool.false_eq_true, if_false, sub_self, abs_zero]
    exact ⟨hfg x0, hε⟩
  · simp only [if_true, abs_zero]
    exact ⟨hε, hgf _⟩

/-- **Loss.** The two powers are a pair of the machine's own conversion: through `g` when the
electric side was computed last, through `f` otherwise — they differ by the conversion loss at that
load and by nothing else. -/
theorem loss_pair (full anyFull : Bool) :
    (anyFull = true → (step f g x0 L full anyFull).shaftOut = g (step f g x0 L full anyFull).elecIn) ∧
    (anyFull = false → (step f g x0 L full anyFull).elecIn = f (step f g x0 L full anyFull).shaftOut) := by
  cases anyFull <;> simp [step]

/-- **Full PTI.** The electrical side supplies the whole shaft load plus the loss:
`L / efficiency(L / rated)` for the machine's characteristic `η`. -/
theorem full_pti (η inv : Rat → Rat) (rated : Rat) (g : Rat → Rat) (hL : 0 ≤ L) :
    (step (inFromOut η inv rated) g x0 L true true).elecIn = L / effHat η (rabs L / rated) ∧
    L ≤ (step (inFromOut η inv rated) g x0 L true true).elecIn ∧
    (step (inFromOut η inv rated) g x0 L true true).shaftUsed = L := by
  have h1 : (step (inFromOut η inv rated) g x0 L true true).elecIn = inFromOut η inv rated L := by simp [step]
  rw [h1]
  unfold inFromOut
  rw [if_pos hL]
  exact ⟨rfl, C06.fwd_supply_ge_delivery η rated L hL, by simp [step]⟩

/-- **Same machine.** A hybrid system is accepted exactly when both sides have PTI/PTO units, the
same number of them, and every electric-side unit is also on the mechanical side. -/
theorem same_machine (e m : List Nat) :
    sameMachines e m = true ↔ e ≠ [] ∧ m ≠ [] ∧ e.length = m.length ∧ ∀ x ∈ e, x ∈ m := by
  unfold sameMachines
  simp only [Bool.and_eq_true, Bool.not_eq_true', List.isEmpty_eq_false_iff, beq_iff_eq, List.all_eq_true,
    List.contains_iff_mem]
  constructor
  · rintro ⟨⟨⟨a, b⟩, c⟩, d⟩; exact ⟨a, b, c, d⟩
  · rintro ⟨a, b, c, d⟩; exact ⟨⟨⟨a, b⟩, c⟩, d⟩

/-! ### Non-vacuity: a machine with 90 % efficiency each way, exact inverse -/

example : step (fun p => p / (9 / 10)) (fun x => x * (9 / 10)) 500 800 false false =
      ⟨500, 450, 500, 450⟩ ∧
    (step (fun p => p / (9 / 10)) (fun x => x * (9 / 10)) 500 800 true true).shaftUsed = 800 := by
  constructor
  · decide +kernel
  · decide +kernel

end Feems.Props.C05
