/-
C05 — hybrid system: one PTI/PTO, consistent on the electric and the shaft side.
`f`, `g` are the two conversions of the machine (C06); `ε`-accuracy of the default interpolated
inverse is a hypothesis here (C06 proves 1 % under the knot contract; 0.5 % is validated per case).
`step`: a PTI/PTO in given-power mode on the electric side; `stepBalancing`: one whose electrical power
the electrical balance decides (load-sharing mode 0).
-/
import FeemsProofs.C06
import FeemsProofs.C04
import FeemsModel.Model.Hybrid

set_option linter.unusedSimpArgs false
set_option linter.unusedVariables false

namespace Feems.Props.C05
open Feems Feems.Hybrid Feems.Comp

variable (f g : Rat → Rat) (x0 L : Rat)

/-- Final state with a second electric pass (some step of the series is full-PTI). -/
theorem final_with_second_pass (full : Bool) :
    (step f g x0 L full true false).elecIn = f (if full then L else g x0) ∧
    (step f g x0 L full true false).shaftOut = g (f (if full then L else g x0)) := by
  simp [step]

/-- Final state when the shaft lines are balanced once more after the second electric pass. -/
theorem final_with_rebalance (full : Bool) :
    (step f g x0 L full true true).shaftOut = (if full then L else g (f (g x0))) ∧
    (step f g x0 L full true true).elecIn = f (if full then L else g (f (g x0))) := by
  cases full <;> simp [step]

/-- Final state without a second pass. -/
theorem final_without_second_pass (rb : Bool) :
    (step f g x0 L false false rb).elecIn = f (g x0) ∧ (step f g x0 L false false rb).shaftOut = g x0 := by
  simp [step]

/-- **Electric side.** The electric balance (C01) was computed with `elecUsed`; the PTI/PTO's final
electrical power differs from it by the round-trip error of the machine, and not at all when the
second electric pass was the last pass or the step is full-PTI. -/
theorem electric_consistency (full anyFull rb : Bool) :
    (step f g x0 L full anyFull rb).elecIn - (step f g x0 L full anyFull rb).elecUsed =
      if anyFull then (if rb && !full then f (g (f (g x0))) - f (g x0) else 0)
      else f (if full then L else g x0) - x0 := by
  cases anyFull <;> cases rb <;> cases full <;> simp [step]

/-- **Shaft side.** The shaft balance (C04) was computed with `shaftUsed`; the final shaft power
differs from it by the round-trip error, and not at all when a shaft balance was the last pass. -/
theorem shaft_consistency (full anyFull rb : Bool) :
    (step f g x0 L full anyFull rb).shaftOut - (step f g x0 L full anyFull rb).shaftUsed =
      if anyFull && !rb then g (f (if full then L else g x0)) - (if full then L else g x0) else 0 := by
  cases anyFull <;> cases rb <;> cases full <;> simp [step]

/-- Hence both balances hold to within the machine's round-trip accuracy `ε`. -/
theorem balances_within (ε : Rat) (full anyFull rb : Bool)
    (hfg : ∀ x, |f (g x) - x| ≤ ε) (hgf : ∀ p, |g (f p) - p| ≤ ε) (hfull : full = true → anyFull = true) :
    |(step f g x0 L full anyFull rb).elecIn - (step f g x0 L full anyFull rb).elecUsed| ≤ ε ∧
    |(step f g x0 L full anyFull rb).shaftOut - (step f g x0 L full anyFull rb).shaftUsed| ≤ ε := by
  have hε : 0 ≤ ε := le_trans (abs_nonneg _) (hfg 0)
  rw [electric_consistency, shaft_consistency]
  cases anyFull
  · have : full = false := by cases full <;> simp_all
    subst this
    simp only [Bool.false_eq_true, if_false, sub_self, abs_zero, Bool.false_and]
    exact ⟨hfg x0, hε⟩
  · cases rb <;> cases full <;> simp only [if_true, abs_zero, Bool.true_and, Bool.not_true, Bool.not_false,
      Bool.false_eq_true, if_false, sub_self, Bool.and_false, Bool.and_true]
    · exact ⟨hε, hgf _⟩
    · exact ⟨hε, hgf _⟩
    · exact ⟨hfg _, hε⟩
    · exact ⟨hε, hε⟩

/-- **Loss.** The two powers are a pair of the machine's own conversion: through `g` when the
electric side was computed last, through `f` otherwise — they differ by the conversion loss at that
load and by nothing else. -/
theorem loss_pair (full anyFull rb : Bool) :
    (anyFull = true → rb = false → (step f g x0 L full anyFull rb).shaftOut = g (step f g x0 L full anyFull rb).elecIn) ∧
    ((anyFull = false ∨ rb = true) → (step f g x0 L full anyFull rb).elecIn = f (step f g x0 L full anyFull rb).shaftOut) := by
  cases anyFull <;> cases rb <;> simp [step]

/-- **Full PTI.** The electrical side supplies the whole shaft load plus the loss:
`L / efficiency(L / rated)` for the machine's characteristic `η`. -/
theorem full_pti (η inv : Rat → Rat) (rated : Rat) (g : Rat → Rat) (hL : 0 ≤ L) (rb : Bool) :
    (step (inFromOut η inv rated) g x0 L true true rb).elecIn = L / effHat η (rabs L / rated) ∧
    L ≤ (step (inFromOut η inv rated) g x0 L true true rb).elecIn ∧
    (step (inFromOut η inv rated) g x0 L true true rb).shaftUsed = L := by
  have h1 : (step (inFromOut η inv rated) g x0 L true true rb).elecIn = inFromOut η inv rated L := by
    cases rb <;> simp [step]
  rw [h1]
  unfold inFromOut
  rw [if_pos hL]
  exact ⟨rfl, C06.fwd_supply_ge_delivery η rated L hL, by cases rb <;> simp [step]⟩

/-! ### A PTI/PTO that shares the bus load (load-sharing mode 0) -/

/-- Its shaft line is balanced with its final shaft power, its two powers are a conversion pair, and
the electric balance was computed with a share that differs from its final electrical power by the
machine's round-trip error only. -/
theorem balancing_consistent (xb1 xb2 : Rat) (anyFull : Bool) (ε : Rat) (hfg : ∀ x, |f (g x) - x| ≤ ε) :
    (stepBalancing f g xb1 xb2 anyFull).shaftOut = (stepBalancing f g xb1 xb2 anyFull).shaftUsed ∧
    (stepBalancing f g xb1 xb2 anyFull).elecIn = f (stepBalancing f g xb1 xb2 anyFull).shaftOut ∧
    |(stepBalancing f g xb1 xb2 anyFull).elecIn - (stepBalancing f g xb1 xb2 anyFull).elecUsed| ≤ ε := by
  cases anyFull <;> simp [stepBalancing, hfg]

/-- As found (before the repair of D21) the shaft line of such a machine stayed balanced with the
share of the first electric pass: the gap is the whole change of its shaft power between the passes. -/
theorem balancing_legacy_gap (xb1 xb2 : Rat) :
    (stepBalancingLegacy f g xb1 xb2 true).shaftOut - (stepBalancingLegacy f g xb1 xb2 true).shaftUsed
      = g xb2 - g xb1 := by
  simp [stepBalancingLegacy]

/-- … for instance 90 kW on a machine with 90 % efficiency whose share moves from −500 to −400 kW. -/
example : (stepBalancingLegacy (fun p => p / (9 / 10)) (fun x => x * (9 / 10)) (-500) (-400) true).shaftOut
    - (stepBalancingLegacy (fun p => p / (9 / 10)) (fun x => x * (9 / 10)) (-500) (-400) true).shaftUsed = 90 := by
  decide +kernel

/-- **Same machine.** A hybrid system is accepted exactly when both sides have PTI/PTO units, the
same number of them, and every electric-side unit is also on the mechanical side. -/
theorem same_machine (e m : List Nat) :
    sameMachines e m = true ↔ e ≠ [] ∧ m ≠ [] ∧ e.length = m.length ∧ ∀ x ∈ e, x ∈ m := by
  unfold sameMachines
  simp only [Bool.and_eq_true, Bool.not_eq_true', List.isEmpty_eq_false_iff, beq_iff_eq, List.all_eq_true,
    List.contains_iff_mem]
  constructor
  · rintro ⟨⟨⟨a, b⟩, c⟩, d⟩; exact ⟨a, b, c, d⟩
  · rintro ⟨a, b, c, d⟩; exact ⟨⟨⟨a, b⟩, c⟩, d⟩

/-! ### The repeated shaft balance (D28) -/

open Feems.Shaft in
/-- **Repeated shaft balance.** When the shaft lines are balanced once more with the PTI/PTO power the repeated
electric balance decided, engines + PTI/PTO = loads holds again wherever the status series *that were given*
leave running engines where engine power is needed — whatever the first balance did. -/
theorem repeated_shaft_balance (l : Line) (pti' : Option Pti)
    (h : (l.again pti').isFull = false → (l.again pti').load - (l.again pti').ptiOut ≠ 0 → 0 < (l.again pti').avail) :
    rsum ((l.again pti').balance.engineOut) + (l.again pti').balance.ptiOut = l.load :=
  C04.balance (l.again pti') h

open Feems.Shaft in
/-- The given status series are what the repeated balance works with: its available power is that of the line as
given. -/
theorem repeated_avail (l : Line) (pti' : Option Pti) : (l.again pti').avail = l.avail := rfl

open Feems.Shaft in
/-- As found (D28) the repeated balance worked with the status the first balance had written back: a 1000 kW
engine that idles in the first balance (no load, PTI/PTO at rest) is off when the repeated electric balance asks
the PTI/PTO to generate 500 kW from the shaft — 500 kW are taken from the shaft and delivered by nobody, although
the given status has all the capacity needed; the balance after the repair closes. -/
theorem repeated_shaft_balance_legacy_gap :
    let l : Line := ⟨1, [⟨1000, true⟩], [0], some ⟨0, false⟩⟩
    let p' : Option Pti := some ⟨-500, false⟩
    rsum ((l.againLegacy p').balance.engineOut) + (l.againLegacy p').balance.ptiOut - l.load = -500 ∧
    rsum ((l.again p').balance.engineOut) + (l.again p').balance.ptiOut - l.load = 0 ∧ 0 < l.avail := by
  decide +kernel

/-! ### Non-vacuity: a machine with 90 % efficiency each way, exact inverse -/

example : step (fun p => p / (9 / 10)) (fun x => x * (9 / 10)) 500 800 false false false =
      ⟨500, 450, 500, 450⟩ ∧
    (step (fun p => p / (9 / 10)) (fun x => x * (9 / 10)) 500 800 true true false).shaftUsed = 800 := by
  constructor
  · decide +kernel
  · decide +kernel

end Feems.Props.C05
