/-
Components with an efficiency characteristic (`feems/components_model/component_base.py`,
`component_electric.py`): the clamp of the efficiency, the forward conversion
`in = out / η̂(|out| / rated)`, the direction dispatch of the two bidirectional conversions (scalar
and array variants), serial trains, electric machines by role.

The characteristic `η` and the interpolated inverse `inv` (scipy `PchipInterpolator`s in the code)
are parameters: theorems hold for every curve; in the correspondence their values are read from the
real component (oracle) at the loads / powers the model itself computes.
-/
import FeemsModel.Model.Basic
import FeemsModel.Model.Pchip

namespace Feems.Comp

/-- `np.clip(η(load), 0.01, 1)` (`get_efficiency_from_load_percentage`). -/
def effHat (η : Rat → Rat) (x : Rat) : Rat := clamp (1 / 100) 1 (η x)

/-- `get_load`: `|power| / rated`. -/
def load (rated p : Rat) : Rat := rabs p / rated

/-- `_get_power_input_and_load_from_output`: the forward formula. -/
def fwd (η : Rat → Rat) (rated out : Rat) : Rat := out / effHat η (load rated out)

/-- `_get_power_output_and_load_from_input` without strict balance: the raw interpolant `inv`
limited to the magnitude of its argument (`np.clip(inv v, -|v|, |v|)`, the repair of D27: the raw
PCHIP value overshoots where the efficiency reaches 100 %). -/
def invC (inv : Rat → Rat) (v : Rat) : Rat := clamp (-rabs v) (rabs v) (inv v)

/-- The same conversion as found (before D27): the raw interpolant. -/
def invLegacy (inv : Rat → Rat) (v : Rat) : Rat := inv v

/-- `get_power_input_from_bidirectional_output` for a scalar (`>= 0` takes the forward formula,
reverse flow the interpolated inverse). -/
def inFromOut (η inv : Rat → Rat) (rated out : Rat) : Rat :=
  if 0 ≤ out then fwd η rated out else invC inv out

/-- … and for an array element (`> 0` mask; the rest, including 0, the inverse). -/
def inFromOutArr (η inv : Rat → Rat) (rated out : Rat) : Rat :=
  if 0 < out then fwd η rated out else invC inv out

/-- `get_power_output_from_bidirectional_input` (scalar and array agree: `> 0` takes the
inverse, the rest the forward formula). -/
def outFromIn (η inv : Rat → Rat) (rated inp : Rat) : Rat :=
  if 0 < inp then invC inv inp else fwd η rated inp

/-- The samples the inverse interpolant is built from: `arange(-rated, rated, rated/100)`. -/
def knotOut (rated : Rat) (k : Nat) : Rat := -rated + k * (rated / 100)

/-- The supply side of sample `k`: the forward map at `knotOut rated k` (`power_in = power_out / η̂(load)`). -/
def knotIn (η : Rat → Rat) (rated : Rat) (k : Nat) : Rat := fwd η rated (knotOut rated k)

/-- The constructor's test on the 200 samples (`(diff_power_in > 0).all()`; the all-falling alternative the code also
lets through cannot occur: a sample has the sign of its delivered power). -/
def tableMonotoneB (η : Rat → Rat) (rated : Rat) : Bool :=
  (List.range 199).all fun k => decide (knotIn η rated k < knotIn η rated (k + 1))

/-- **The interpolated inverse as the constructor builds it**: the shape-preserving cubic interpolant
(`Feems.Pchip.eval`, the model of `PchipInterpolator(power_in, power_out, extrapolate=True)`) through the
200 samples of the forward map.  With this the inverse is no longer an oracle: it is computed by the model
from the characteristic. -/
def invTable (η : Rat → Rat) (rated : Rat) (v : Rat) : Rat :=
  Pchip.eval 200 (knotIn η rated) (knotOut rated) v

/-- The characteristic from the points the component was given (`Pchip.curve`; a rejected list cannot reach
here: the constructor raised). -/
def etaOfPoints (pts : List (Rat × Rat)) (x : Rat) : Rat :=
  match Pchip.curve pts x with
  | .ok v => v
  | .error _ => 1

/-! ### Serial trains (`SerialSystem.__init__`) -/

structure Stage where
  rated : Rat
  η : Rat → Rat

/-- Loads of the later stages: `load_i = |rated_{i-1} · load_{i-1}| / rated_i`
(`component.get_load(components[i - 1].rated_power * load)`). -/
def stageLoadsFrom (prevRated prevLoad : Rat) : List Stage → List Rat
  | [] => []
  | s :: rest =>
    let l := rabs (prevRated * prevLoad) / s.rated
    l :: stageLoadsFrom s.rated l rest

/-- Load of every stage when the first stage is at load `x` (losses between stages are
neglected, as in the code: stage `i` sees the power `rated₀ · x`). -/
def stageLoads (x : Rat) : List Stage → List Rat
  | [] => []
  | s :: rest => x :: stageLoadsFrom s.rated x rest

/-- Product of the clamped stage efficiencies, each stage at its own load. -/
def serialEff (stages : List Stage) (x : Rat) : Rat :=
  ((stages.zip (stageLoads x stages)).map fun sl => effHat sl.1.η sl.2).foldr (· * ·) 1

/-- The eleven points handed to `BasicComponent`: `(k/10, serialEff (k/10))` (after D9; before,
the abscissa was the load of the *last* stage). -/
def serialPoints (stages : List Stage) : List (Rat × Rat) :=
  (List.range 11).map fun k => (((k : Nat) : Rat) / 10, serialEff stages (((k : Nat) : Rat) / 10))

/-- **The characteristic of a serial train, computed by the model alone**: the shape-preserving cubic
(`Pchip.curve`) through the eleven points, clamped like every efficiency — what
`SerialSystem.get_efficiency_from_load_percentage` returns (the stages' own characteristics are `etaOfPoints`
of their points, so no oracle is involved). -/
def serialEta (stages : List Stage) (x : Rat) : Rat := effHat (etaOfPoints (serialPoints stages)) x

/-- Abscissa as found before the repair of D9. -/
def serialAbscissaLegacy (stages : List Stage) (x : Rat) : Rat :=
  (stageLoads x stages).getLast?.getD x

/-! ### Electric machines by role (`component_electric.py:110-175`) -/

inductive Role | source | consumer | ptiPto
  deriving Repr, DecidableEq

/-- `get_shaft_power_load_from_electric_power`. -/
def shaftFromElectric (role : Role) (η inv : Rat → Rat) (rated pe : Rat) : Rat :=
  match role with
  | .source => inFromOut η inv rated pe
  | .consumer | .ptiPto => outFromIn η inv rated pe

/-- `get_electric_power_load_from_shaft_power`. -/
def electricFromShaft (role : Role) (η inv : Rat → Rat) (rated ps : Rat) : Rat :=
  match role with
  | .source => outFromIn η inv rated ps
  | .consumer | .ptiPto => inFromOut η inv rated ps

end Feems.Comp
