/-
Interval-weighted integration (`feems/components_model/utility.py`):
`integrate_data(…, sum_with_time)` = `np.dot(rate, dt)`, its cumulative variant, and the
duration rule of `node.get_duration_s`.
-/
import FeemsModel.Model.Basic

namespace Feems.Integrate

/-- The time base as the code accepts it: one number or one number per sample. -/
inductive TimeBase where
  | scalar (dt : Rat)
  | series (dts : List Rat)
  deriving Repr

/-- `data_is_valid_for_variable_time_interval`: an array of the same shape, or a scalar
interval together with a single sample. -/
def valid (n : Nat) : TimeBase → Bool
  | .scalar _ => n == 1
  | .series dts => dts.length == n

def TimeBase.expand (n : Nat) : TimeBase → List Rat
  | .scalar dt => List.replicate n dt
  | .series dts => dts

/-- `integrate_data(rate, dt, sum_with_time)`; `none` = `IntegrationError`. -/
def integrate (rate : List Rat) (tb : TimeBase) : Option Rat :=
  if valid rate.length tb then some (dot rate (tb.expand rate.length)) else none

/-- `integrate_data` as it takes a constant (after D87): a single value next to several intervals stands
for that value over all of them; before, that input was an `IntegrationError` and the results dropped
the energy, or counted the first interval only. -/
def integrateC (rate : List Rat) (tb : TimeBase) : Option Rat :=
  match rate, tb with
  | [r], .series dts => if dts.length ≤ 1 then integrate rate tb else some (r * rsum dts)
  | _, _ => integrate rate tb

/-- running sums `cumsum(rate * dt)` -/
def cumsum : Rat → List Rat → List Rat
  | _, [] => []
  | acc, x :: xs => (acc + x) :: cumsum (acc + x) xs

/-- `integrate_data_accumulative`: `insert(cumsum(rate * dt), 0, 0)`. -/
def accumulate (rate dts : List Rat) : List Rat :=
  0 :: cumsum 0 (List.zipWith (· * ·) rate dts)

/-- `get_duration_s` for interval-weighted integration: the sum of the intervals
(a scalar interval stands for one interval). -/
def duration : TimeBase → Rat
  | .scalar dt => dt
  | .series dts => rsum dts

end Feems.Integrate
