/-
Greenhouse-gas factor lookup (`feems/fuel.py`: `get_prescribed_factors`,
`Fuel.get_ghg_emission_factor_tank_to_wake_gco2eq_per_gfuel`, the mix rule of
`FuelByMassFraction.get_kg_co2_per_kg_fuel`) over the factor tables *generated from the source*
(`Generated/FuelTables.lean`).
-/
import FeemsModel.Generated.FuelTables
import FeemsModel.Model.Fuel

namespace Feems.Ghg
open Feems.Generated.FuelTables Feems.Fuel

def rowComplete (r : Row) : Bool :=
  r.lcv.isSome && r.wtt.isSome && r.co2.isSome && r.ch4.isSome && r.n2o.isSome && r.slip.isSome

def rowTtw (r : Row) : Ttw := ⟨r.co2.getD 0, r.ch4.getD 0, r.n2o.getD 0, r.slip.getD 0⟩

/-- `get_prescribed_factors`: the rows of one fuel pathway, in file order. -/
def rowsFor (tbl : List Row) (origin fuel : Nat) : List Row :=
  tbl.filter fun r => r.origin = origin && r.fuel = fuel

/-- Rows + LCV + upstream factor of a table fuel; `none` = the lookup raises (no row for this
fuel / origin, or — after the repair of D17 — a row with an empty factor cell). -/
def prescribed (tbl : List Row) (origin fuel : Nat) : Option (List Row × Rat × Rat) :=
  match rowsFor tbl origin fuel with
  | [] => none
  | r :: rest =>
    if (r :: rest).all rowComplete then some (r :: rest, r.lcv.getD 0, r.wtt.getD 0) else none

/-- User-specified factors: rows tagged with a consumer class (`none` = untagged). -/
structure UserFactors where
  lhv : Rat
  wtt : Rat
  rows : List (Option Nat × Ttw)
  deriving Repr

/-- The class actually used for one fuel of a mix: in a gas-engine class every fuel other than
natural gas uses the generic internal-combustion-engine factors. -/
def effectiveClass (cls : Nat) (fuelType : Nat) : Nat :=
  if lngClasses.contains cls && fuelType != naturalGas then iceClass else cls

/-- Factors of one fuel kind for a consumer class (`cls = 0`: none given).
`none` = the implementation raises. -/
def resolve (cls : Nat) (k : Kind) (user : Option UserFactors) : Option Factors :=
  if k.spec = specIMO then
    (prescribed imoRows k.origin k.type).bind fun (rows, lhv, wtt) =>
      rows.head?.map fun r => ⟨rowTtw r, lhv, wtt⟩
  else if k.spec = specEU then
    if cls = 0 then none else
    (prescribed euRows k.origin k.type).bind fun (rows, lhv, wtt) =>
      (rows.find? fun r => r.cls = effectiveClass cls k.type).map fun r => ⟨rowTtw r, lhv, wtt⟩
  else if k.spec = specUSER then
    user.bind fun u =>
      let want : Option Nat := if cls = 0 then none else some (effectiveClass cls k.type)
      -- a row that names no consumer class holds for every consumer (repo 27df382; as found: `resolveUserLegacy`)
      ((u.rows.find? fun r => r.1 = want).orElse fun _ => u.rows.find? fun r => r.1 = none).map fun r => ⟨r.2, u.lhv, u.wtt⟩
  else none

/-- As found: a user's row is matched by exact equality of the class, so a class-less row is never found once a class is given. -/
def resolveUserLegacy (cls : Nat) (k : Kind) (u : UserFactors) : Option Factors :=
  let want : Option Nat := if cls = 0 then none else some (effectiveClass cls k.type)
  (u.rows.find? fun r => r.1 = want).map fun r => ⟨r.2, u.lhv, u.wtt⟩

/-- `FuelConsumption.get_total_co2_emissions(cls)` for a record of one specification.
A scalar record that burned nothing has an empty fraction record: no factor is looked up and the
result is zero. With series masses (`series = true`) every fuel's factor is looked up whatever
the masses. -/
def recordEmissions (cls : Nat) (r : Rec Rat) (user : Option UserFactors) (series : Bool := false) : Option Ghg :=
  if !series && total r = 0 then some {} else
  (r.mapM fun e => (resolve cls e.1 user).map fun f => (f, e.2)).map totalEmissions

end Feems.Ghg
