/-
Protobuf export of a result (`MachSysS/convert_feems_result_to_proto.py:235-383`): float fields are
copied by name into the same-named `double` field of the message (a field without a counterpart is
silently skipped), fuel record, CO2 components and NOx are handled explicitly, detail rows are
mapped through `_COLUMN_NAMES`; per-component series and their time base.
Field and column lists come from the module generated from the source.
-/
import FeemsModel.Generated.ResultFields
import FeemsModel.Model.Result
import FeemsModel.Model.Integrate

namespace Feems.Export
open Feems.Generated.ResultFields Feems.Fuel

structure Co2Msg where
  wellToTank : Rat
  tankToWake : Rat
  wellToWake : Rat
  tankToWakeNoSlip : Rat
  wellToWakeNoSlip : Rat
  deriving Repr, DecidableEq

def co2Msg (g : Ghg) : Co2Msg := ⟨g.wtt, g.ttw, g.ttw + g.wtt, g.ttwNoSlip, g.ttwNoSlip + g.wtt⟩

structure Msg where
  duration : Rat
  fuels : Fuel.Rec Rat
  scalars : List (String × Rat)
  co2 : Co2Msg
  nox : Rat
  detail : List Nat
  deriving Repr

/-- names of the `double` scalar fields of the `FeemsResult` message -/
def protoDoubles : List String := (protoResultFields.filter (·.2)).map (·.1)

/-- species key of NOx in the emission dictionary (`EmissionType.NOX`) -/
def noxKey : Nat := 2

/-- `_get_feems_result_proto_for_subsystem` on the result proper (`floatNames` = the float
fields of the result, in the order of `r.ext`). An unset duration leaves the message default 0. -/
def exportResult (floatNames : List String) (r : Result.Result) : Msg :=
  { duration := r.duration.getD 0,
    fuels := r.fuel,
    scalars := (floatNames.zip r.ext).filter fun nv => protoDoubles.contains nv.1,
    co2 := co2Msg r.co2,
    nox := match r.emis with
      | none => 0
      | some e => KV.massOf noxKey e,
    detail := r.detail.getD [] }

/-- Start of every interval: `0, dt₀, dt₀ + dt₁, …`. -/
def starts : Rat → List Rat → List Rat
  | _, [] => []
  | acc, x :: xs => acc :: starts (acc + x) xs

/-- Time stamps attached to the per-component series: the instant from which sample `k` is held (after D45). -/
def timeBase (n : Nat) : Integrate.TimeBase → List Rat
  | .series dts => starts 0 dts
  | .scalar dt => (List.range n).map fun (k : Nat) => (k : Rat) * dt

/-- As found (D45) the per-interval base carried the *end* of every interval (the running sums), one sample
late with respect to the constant-step base and to the epochs of an input series. -/
def timeBaseLegacy (n : Nat) : Integrate.TimeBase → List Rat
  | .series dts => Integrate.cumsum 0 dts
  | .scalar dt => (List.range n).map fun (k : Nat) => (k : Rat) * dt

/-- … or, when the input time series is given, its first `n` epochs. -/
def timeBaseFromInput (n : Nat) (epochs : List Rat) : List Rat := epochs.take n

/-! ### Per-component series -/

/-- One collected series (`_retrieve_time_series_data_from_components`): the component's name,
its switchboard / shaft-line number, its type, and the series. -/
structure SeriesItem where
  name : String
  node : Nat
  type : String
  power : List Rat
  deriving Repr, DecidableEq

def SeriesItem.key (s : SeriesItem) : String × Nat × String := (s.name, s.node, s.type)

/-- The series attached to the detail record of (`name`, `node`, `type`): the first collected item
with that name, node number and component type. -/
def seriesFor (items : List SeriesItem) (name : String) (node : Nat) (type : String) : Option SeriesItem :=
  items.find? fun s => s.name = name && s.node = node && s.type = type

/-- As found (before the repair of D22): looked up by name and node number only. -/
def seriesForLegacy (items : List SeriesItem) (name : String) (node : Nat) : Option SeriesItem :=
  items.find? fun s => s.name = name && s.node = node

end Feems.Export
