/-
Object reuse as a state machine.  A system object keeps, between calls, the inputs last written
into its components (loads, statuses, sharing modes, storage / PTI-PTO powers, breaker positions,
time base) and the outputs last computed (source and engine outputs, balancing inputs, bus maps).
`setInputs` overwrites every input; `balance` recomputes every output from the inputs held;
`result` and the other queries only read.  The model is generic in the input, output and result
types and in the balance / result functions (instances: `Electric.balance`, `Shaft.balance`,
`Hybrid.step`, `Result.accumulate`).
-/
namespace Feems.History

structure State (I O : Type) where
  inputs : Option I
  outputs : Option O

inductive Op (I : Type) where
  | setInputs (i : I)
  | balance
  | result
  | query          -- totals, emissions, mass fractions, protobuf export: read-only

inductive Out (O R : Type) where
  | none
  | rejected       -- balance / result asked for before inputs were given
  | balanced (o : O)
  | result (r : R)

def step {I O R : Type} (bal : I → O) (res : I → O → R) (s : State I O) : Op I → State I O × Out O R
  | .setInputs i => ({ s with inputs := some i }, .none)        -- stale outputs stay until `balance`
  | .balance =>
    match s.inputs with
    | some i => ({ s with outputs := some (bal i) }, .balanced (bal i))
    | none => (s, .rejected)
  | .result =>
    match s.inputs, s.outputs with
    | some i, some o => (s, .result (res i o))
    | _, _ => (s, .rejected)
  | .query =>
    match s.inputs, s.outputs with
    | some i, some o => (s, .result (res i o))
    | _, _ => (s, .rejected)

/-- Run a list of operations; the outputs in order. -/
def run {I O R : Type} (bal : I → O) (res : I → O → R) : State I O → List (Op I) → State I O × List (Out O R)
  | s, [] => (s, [])
  | s, op :: ops =>
    let (s', out) := step bal res s op
    let (s'', outs) := run bal res s' ops
    (s'', out :: outs)

/-- A calculation: supply the inputs, balance, read the result. -/
def calcOps {I : Type} (i : I) : List (Op I) := [.setInputs i, .balance, .result]

/-! ### The length of the series of an electric balance: decided by inputs alone -/

/-- A storage unit or PTI/PTO as the length rule sees it. The stored power series is an INPUT only when the unit is given a power at
some step; for a unit that shares the load at every step it is what the balance before wrote there. -/
structure UnitLens where
  modeLen : Nat
  sharesAlways : Bool
  powerLen : Nat
  deriving Repr, DecidableEq

/-- `ElectricPowerSystem.validate_inputs_before_power_balance_calculation`: the number of points of the balance. The consumers' sum
decides unless it is a single value; then the other series do: status and fixed shares of the sources and the on/off status of the storage units and PTI/PTOs (`srcStatus`: the balance broadcasts over them), sharing modes of the storage units and
PTI/PTOs, their power where it is given (D89), positions of the breakers. -/
def numberPoints (consumers : Nat) (srcStatus : List Nat) (units : List UnitLens) (breakers : List Nat) : Nat :=
  if consumers ≠ 1 then consumers
  else ((consumers :: srcStatus) ++ units.map (·.modeLen) ++ (units.filter (!·.sharesAlways)).map (·.powerLen) ++ breakers).foldl max 0

/-- As found: the stored power series of every unit counted, also where it was the result of the balance before. -/
def numberPointsLegacy (consumers : Nat) (srcStatus : List Nat) (units : List UnitLens) (breakers : List Nat) : Nat :=
  if consumers ≠ 1 then consumers
  else ((consumers :: srcStatus) ++ units.map (·.modeLen) ++ units.map (·.powerLen) ++ breakers).foldl max 0

/-- What an earlier balance of `k` points leaves in the units that share the load at every step. -/
def afterBalance (k : Nat) (u : UnitLens) : UnitLens := if u.sharesAlways then { u with powerLen := k } else u

end Feems.History
