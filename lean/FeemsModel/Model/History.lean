/-
Object reuse as a state machine.  A system object keeps, between calls, the inputs last written
into its components (loads, statuses, sharing modes, storage / PTI-PTO powers, breaker positions,
time base) and the outputs last computed (source and engine outputs, balancing inputs, bus maps).
`setInputs` overwrites every input; `balance` recomputes every output from the inputs held;
`result` and the other queries only read.  The model is generic in the input, output and result
types and in the balance / result functions (instances: `Electric.balance`, `Shaft.balance`,
`Hybrid.step`, `Result.accumulate`).
-/
namespace Feems.History

structure State (I O : Type) where
  inputs : Option I
  outputs : Option O

inductive Op (I : Type) where
  | setInputs (i : I)
  | balance
  | result
  | query          -- totals, emissions, mass fractions, protobuf export: read-only

inductive Out (O R : Type) where
  | none
  | rejected       -- balance / result asked for before inputs were given
  | balanced (o : O)
  | result (r : R)

def step {I O R : Type} (bal : I → O) (res : I → O → R) (s : State I O) : Op I → State I O × Out O R
  | .setInputs i => ({ s with inputs := some i }, .none)        -- stale outputs stay until `balance`
  | .balance =>
    match s.inputs with
    | some i => ({ s with outputs := some (bal i) }, .balanced (bal i))
    | none => (s, .rejected)
  | .result =>
    match s.inputs, s.outputs with
    | some i, some o => (s, .result (res i o))
    | _, _ => (s, .rejected)
  | .query =>
    match s.inputs, s.outputs with
    | some i, some o => (s, .result (res i o))
    | _, _ => (s, .rejected)

/-- Run a list of operations; the outputs in order. -/
def run {I O R : Type} (bal : I → O) (res : I → O → R) : State I O → List (Op I) → State I O × List (Out O R)
  | s, [] => (s, [])
  | s, op :: ops =>
    let (s', out) := step bal res s op
    let (s'', outs) := run bal res s' ops
    (s'', out :: outs)

/-- A calculation: supply the inputs, balance, read the result. -/
def calcOps {I : Type} (i : I) : List (Op I) := [.setInputs i, .balance, .result]

end Feems.History
