/-
The interpolation rule of every FEEMS curve (efficiency, specific fuel consumption, emission and
power-split curves): `scipy.interpolate.PchipInterpolator(x, y)` with the default `extrapolate`,
as called from `feems/components_model/utility.py` (`get_efficiency_curve_from_points`,
`get_emission_curve_from_points`) and `component_mechanical.py`.

Until this module the interpolant was an *oracle* of the correspondence (a primitive outside the
model).  It is a rational function of the points and the abscissa — divided differences, a weighted
harmonic mean, a three-point end formula with two sign tests, a cubic in Hermite form — so it can be
modelled exactly over `Rat`:

* `edge`      = `PchipInterpolator._edge_case`            (scipy/interpolate/_cubic.py)
* `interior`  = the `whmean` branch of `_find_derivatives`
* `deriv`     = `_find_derivatives` (two points: the secant slope at both ends)
* `locate`    = the interval `PPoly` evaluates on (the last interval for the last point and beyond it,
                the first one before the first point: `extrapolate=True`)
* `hermite`   = `CubicHermiteSpline` on one interval
* `eval`      = the interpolant

The points are a pair of functions `Nat → Rat` and a count `n` (the driver reads a list `l` as
`fun i => l.getD i 0`); only indices `< n` are ever looked at.  Core Lean only.
-/
import FeemsModel.Model.Basic

namespace Feems.Pchip

/-- `np.sign`. -/
def sgn (r : Rat) : Int := if 0 < r then 1 else if r < 0 then -1 else 0

/-- `PchipInterpolator._edge_case(h0, h1, m0, m1)`: one-sided three-point estimate at an end point,
set to 0 when its sign differs from the end secant's, cut to `3·m0` when the two secants differ in
sign and the estimate is larger than that. -/
def edge (h0 h1 m0 m1 : Rat) : Rat :=
  let d := ((2 * h0 + h1) * m0 - h0 * m1) / (h0 + h1)
  if sgn d ≠ sgn m0 then 0
  else if sgn m0 ≠ sgn m1 ∧ 3 * rabs m0 < rabs d then 3 * m0
  else d

/-- Slope at an interior point: 0 at a local extremum or next to a flat interval, else the weighted
harmonic mean of the two secants (`h0, m0` left interval, `h1, m1` right interval). -/
def interior (h0 h1 m0 m1 : Rat) : Rat :=
  if sgn m0 ≠ sgn m1 ∨ m0 = 0 ∨ m1 = 0 then 0
  else
    let w1 := 2 * h1 + h0
    let w2 := h1 + 2 * h0
    (w1 + w2) / (w1 / m0 + w2 / m1)

/-- Interval length and secant slope of interval `k` (between points `k` and `k+1`). -/
def hk (x : Nat → Rat) (k : Nat) : Rat := x (k + 1) - x k
def mk (x y : Nat → Rat) (k : Nat) : Rat := (y (k + 1) - y k) / hk x k

/-- `_find_derivatives`: the slope the interpolant has at point `k` (of `n` points). -/
def deriv (n : Nat) (x y : Nat → Rat) (k : Nat) : Rat :=
  if n ≤ 2 then mk x y 0
  else if k = 0 then edge (hk x 0) (hk x 1) (mk x y 0) (mk x y 1)
  else if k + 1 = n then edge (hk x (n - 2)) (hk x (n - 3)) (mk x y (n - 2)) (mk x y (n - 3))
  else interior (hk x (k - 1)) (hk x k) (mk x y (k - 1)) (mk x y k)

/-- The largest `k ≤ top` with `x k ≤ t`, or 0 when there is none: the interval the piecewise
polynomial is evaluated on (`top = n - 2`). -/
def locate (x : Nat → Rat) (t : Rat) : Nat → Nat
  | 0 => 0
  | k + 1 => if x (k + 1) ≤ t then k + 1 else locate x t k

/-- The four cubic Hermite basis functions on `[0, 1]`. -/
def h00 (s : Rat) : Rat := 2 * s ^ 3 - 3 * s ^ 2 + 1
def h10 (s : Rat) : Rat := s ^ 3 - 2 * s ^ 2 + s
def h01 (s : Rat) : Rat := 3 * s ^ 2 - 2 * s ^ 3
def h11 (s : Rat) : Rat := s ^ 3 - s ^ 2

/-- The cubic through `(x0, y0)` and `(x1, y1)` with slopes `d0`, `d1` there. -/
def hermite (x0 x1 y0 y1 d0 d1 t : Rat) : Rat :=
  let h := x1 - x0
  let s := (t - x0) / h
  y0 * h00 s + h * d0 * h10 s + y1 * h01 s + h * d1 * h11 s

/-- The interpolant through `n ≥ 2` points at abscissa `t` (extrapolating with the end cubics). -/
def eval (n : Nat) (x y : Nat → Rat) (t : Rat) : Rat :=
  let k := locate x t (n - 2)
  hermite (x k) (x (k + 1)) (y k) (y (k + 1)) (deriv n x y k) (deriv n x y (k + 1)) t

/-- What the constructor of the interpolant accepts: at least two points, abscissae strictly
increasing (scipy: "`x` must be strictly increasing sequence"). -/
def acceptedB (xs : List Rat) : Bool :=
  decide (2 ≤ xs.length) && (xs.zip xs.tail).all (fun p => decide (p.1 < p.2))

/-- A FEEMS curve from a list of points as the code reads them: one point is a constant
(`utility.py`: `lambda x: eff`), several are sorted by abscissa and interpolated. -/
def curve (pts : List (Rat × Rat)) (t : Rat) : Except String Rat :=
  match pts with
  | [] => .error "reject:no points"
  | [p] => .ok p.2
  | _ =>
    let s := pts.mergeSort (fun a b => decide (a.1 ≤ b.1))
    let xs := s.map (·.1)
    let ys := s.map (·.2)
    if acceptedB xs then .ok (eval s.length (fun i => xs.getD i 0) (fun i => ys.getD i 0) t)
    else .error "reject:abscissae not strictly increasing"

end Feems.Pchip
