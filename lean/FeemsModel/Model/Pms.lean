/-
Load-dependent start/stop (`RunFEEMSSim/RunFeemsSim/pms_basic.py`, `feems/runsimulation.py`).

`min_load_table_dict`: all `2^n` on/off patterns (`itertools.product([False, True], repeat=n)`)
with their load `f · Σ on ratings`, sorted as Python sorts `(load, pattern)` tuples; pattern `k+1`
becomes active at the load of pattern `k` (`dict(zip(loads[:-1], patterns[1:]))`, a later pair
overwrites an earlier one with the same key).  `PmsLoadTable.on_pattern` looks the load up with
`np.digitize(load, bins[1:])`, i.e. it takes the value stored under the largest key `≤ load`, and
the value of the smallest key when the load is below every other key.  Both steps together are
"walk the pairs in order and keep the value of the last pair whose key is `≤ max load key₀`" —
that is `pickFrom` below (checked against the real table and lookup on every case, ties and
thresholds included).
-/
import FeemsModel.Model.Basic

namespace Feems.Pms

abbrev Pat := List Bool

/-- `itertools.product([False, True], repeat=n)`: first position most significant. -/
def allPatterns : Nat → List Pat
  | 0 => [[]]
  | n + 1 => (allPatterns n).map (false :: ·) ++ (allPatterns n).map (true :: ·)

/-- Combined rating of the sources a pattern switches on. -/
def cap : List Rat → Pat → Rat
  | r :: rs, b :: bs => (if b then r else 0) + cap rs bs
  | _, _ => 0

/-- Python's tuple order on patterns (`False < True`, lexicographic). -/
def patLe : Pat → Pat → Bool
  | [], _ => true
  | _ :: _, [] => false
  | a :: as, b :: bs => if a = b then patLe as bs else (!a && b)

abbrev Entry := Rat × Pat

/-- Python's order on `(load, pattern)` tuples. -/
def entryLe (a b : Entry) : Bool := decide (a.1 < b.1) || (decide (a.1 = b.1) && patLe a.2 b.2)

def entries (rs : List Rat) (f : Rat) : List Entry :=
  (allPatterns rs.length).map fun p => (f * cap rs p, p)

/-- `sorted(zip(loads, patterns))`. -/
def sortedEntries (rs : List Rat) (f : Rat) : List Entry := (entries rs f).mergeSort entryLe

/-- Walk the pairs `(load of entry k, pattern of entry k+1)` in order; keep the pattern of the
last pair whose load is `≤ L`. -/
def pickFrom : List Entry → Rat → Pat → Pat
  | a :: b :: rest, L, cur => if a.1 ≤ L then pickFrom (b :: rest) L b.2 else pickFrom (b :: rest) L cur
  | _, _, cur => cur

/-- `PmsLoadTable(min_load_table_dict(rs, f)).on_pattern([L])[0]`. -/
def pick (rs : List Rat) (f : Rat) (L : Rat) : Pat :=
  match sortedEntries rs f with
  | [] => []
  | a :: rest => pickFrom (a :: rest) (max L a.1) a.2

/-- `_ideal_number_of_gensets_on` for equally sized gensets (`runsimulation.py:94-104`). -/
def equalSizeCount (n : Nat) (r f L : Rat) : Nat :=
  if 0 < L then min (L / (r * f)).ceil.toNat n else min 1 n

/-- `_convert_number_of_engines_on_to_status_matrix`: the first `k` sets on. -/
def firstOn (n k : Nat) : Pat := (List.range n).map (· < k)

/-! ### The load the table is asked with -/

/-- What the power sources of a bus have to carry: the consumers and the power every PTI/PTO is given to take from the bus
(positive: motoring, negative: feeding in) at the steps where it does not share the load (mode ≠ 0) - D109;
`(power, mode)` per PTI/PTO. -/
def busLoad (consumers : Rat) (ptis : List (Rat × Rat)) : Rat :=
  consumers + (ptis.map fun pm => if pm.2 = 0 then 0 else pm.1 * pm.2).sum

/-- As found: the consumers alone. -/
def busLoadLegacy (consumers : Rat) (_ptis : List (Rat × Rat)) : Rat := consumers

end Feems.Pms
