/-
Shared helpers for the executable FEEMS model.  Core Lean only (no Mathlib):
everything here must be runnable from the compiled driver.
-/
namespace Feems

/-- Absolute value on `Rat` (core has no `|x|` notation without Mathlib). -/
def rabs (x : Rat) : Rat := if 0 ≤ x then x else -x

/-- `numpy.clip` / the `[lo, hi]` clamp used on efficiencies. -/
def clamp (lo hi x : Rat) : Rat := if x < lo then lo else if hi < x then hi else x

/-- Sum of a list (right fold, `0` for the empty list). -/
def rsum (xs : List Rat) : Rat := xs.foldr (· + ·) 0

/-- `numpy.dot(rate, dt)` for equally long vectors (extra entries are ignored,
the callers check lengths beforehand, as the implementation does). -/
def dot : List Rat → List Rat → Rat
  | x :: xs, y :: ys => x * y + dot xs ys
  | _, _ => 0

/-- Boolean status as a number (`numpy` multiplies by the status array). -/
def b2r (b : Bool) : Rat := if b then 1 else 0

end Feems
