/-
Mechanical power balance of one shaft line at one time step
(`feems/components_model/node.py:1138-1234`, `ShaftLine.do_power_balance`).
-/
import FeemsModel.Model.Basic

namespace Feems.Shaft

structure Eng where
  rated : Rat
  status : Bool
  deriving Repr

/-- PTI/PTO on the shaft: its shaft power (positive = motoring, PTI; negative = PTO) and the
full-PTI flag of this step. -/
structure Pti where
  shaftOut : Rat
  full : Bool
  deriving Repr

structure Line where
  id : Nat
  engines : List Eng
  loads : List Rat
  pti : Option Pti
  deriving Repr

def Line.load (l : Line) : Rat := rsum l.loads

/-- Shaft power of the PTI/PTO after the balance: the whole load in full-PTI mode. -/
def Line.ptiOut (l : Line) : Rat :=
  match l.pti with
  | none => 0
  | some p => if p.full then l.load else p.shaftOut

def Line.isFull (l : Line) : Bool :=
  match l.pti with
  | none => false
  | some p => p.full

def Line.avail (l : Line) : Rat := rsum (l.engines.map fun e => e.rated * b2r e.status)

/-- Load fraction of the running engines: 0 without available power and in full-PTI mode. -/
def Line.frac (l : Line) : Rat :=
  if l.isFull then 0 else if 0 < l.avail then (l.load - l.ptiOut) / l.avail else 0

def engOut (frac : Rat) (e : Eng) : Rat := e.rated * frac * b2r e.status

structure LineResult where
  id : Nat
  engineOut : List Rat
  engineStatus : List Bool     -- status after the call: cleared where the output is 0
  ptiOut : Rat
  frac : Rat
  deriving Repr

def Line.balance (l : Line) : LineResult :=
  let f := l.frac
  { id := l.id, engineOut := l.engines.map (engOut f),
    engineStatus := l.engines.map fun e => e.status && (engOut f e != 0),
    ptiOut := l.ptiOut, frac := f }

/-- The line as the *repeated* shaft balance of a hybrid system sees it (`HybridPropulsionSystem`, after the
repeated electric balance changed the PTI/PTO's power): the status series that were given (after D28). -/
def Line.again (l : Line) (pti' : Option Pti) : Line := { l with pti := pti' }

/-- … and as found (D28): the engines carry the status the first balance wrote back, so an engine that
was idle in the first balance is off in the repeated one. -/
def Line.againLegacy (l : Line) (pti' : Option Pti) : Line :=
  { l with engines := List.zipWith (fun e s => { e with status := s }) l.engines l.balance.engineStatus,
           pti := pti' }

/-- `MechanicalPropulsionSystem.do_power_balance`: every shaft line on its own. -/
def balance (lines : List Line) : List LineResult := lines.map Line.balance

end Feems.Shaft
