/-
Fuel and emission run points (`component_mechanical.py`, `component_electric.py`): engine,
dual-fuel engine, generating set, geared main engine, fuel cell (system), combined gas/steam plant;
running hours (`node.py:124-128`).  Curves (`bsfc`, pilot consumption, species, efficiency, gas
turbine share) are parameters, as in `Component.lean`.
-/
import FeemsModel.Model.Component

namespace Feems.Engine
open Feems.Comp

/-- Engine fuel mass flow in kg/s: `bsfc(load) [g/kWh] · P [kW] / 3600 / 1000`. -/
def engineFuel (bsfc : Rat → Rat) (rated P : Rat) : Rat := bsfc (load rated P) * (P / 3600) / 1000

/-- Pilot fuel of a dual-fuel engine, reported as a second record. -/
def pilotFuel (bpsfc : Rat → Rat) (rated P : Rat) : Rat := bpsfc (load rated P) * P / 1000 / 3600

/-- Species rate in g/s: `curve(load) [g/kWh] · P / 3600`. -/
def speciesRate (curve : Rat → Rat) (rated P : Rat) : Rat := curve (load rated P) * (P / 3600)

/-- Engine power of a generating set: electric power through the generator characteristic
(`get_shaft_power_load_from_electric_power` of a source machine). -/
def gensetEnginePower (ηgen inv : Rat → Rat) (ratedGen P : Rat) : Rat := inFromOut ηgen inv ratedGen P

/-- Engine power of a geared main engine: shaft power divided by the gearbox efficiency at the
gearbox's own load (relative to the gearbox's rating, after D35). -/
def gearedEnginePower (ηgb : Rat → Rat) (ratedGB P : Rat) : Rat := P / effHat ηgb (load ratedGB P)

/-- Engine-side power for a shaft-side power of either sign (`MainEngineWithGearBox….get_engine_run_point_from_power_out_kw` since
D136): the gearbox's own bidirectional conversion; for `0 ≤ P` it is `gearedEnginePower`. -/
def gearedEnginePowerBi (ηgb inv : Rat → Rat) (ratedGB P : Rat) : Rat := inFromOut ηgb inv ratedGB P

/-- As found (D136): reverse power was divided by the efficiency like forward power. -/
def gearedEnginePowerReverseLegacy (ηgb : Rat → Rat) (ratedGB P : Rat) : Rat := P / effHat ηgb (load ratedGB P)

/-- As found (D35) the gearbox characteristic was read at the load relative to the main engine's rating. -/
def gearedEnginePowerLegacy (ηgb : Rat → Rat) (ratedME P : Rat) : Rat := P / effHat ηgb (load ratedME P)

/-- Fuel-cell module: fuel power / lower heating value, `P_in / LHV [MJ/g] / 1e6` kg/s. -/
def fuelCellFuel (η inv : Rat → Rat) (rated lhv P : Rat) : Rat := inFromOut η inv rated P / lhv / 1000000

/-- Fuel-cell system: converter first, then `N` modules each at `1/N` of the cell-side power. -/
def fuelCellSystemFuel (ηconv invConv ηcell invCell : Rat → Rat) (ratedConv ratedCell lhv : Rat) (N : Nat) (P : Rat) : Rat :=
  fuelCellFuel ηcell invCell ratedCell lhv (inFromOut ηconv invConv ratedConv P / N) * N

structure CogasPoint where
  fuel : Rat
  eff : Rat
  gas : Rat
  steam : Rat
  deriving Repr

/-- Combined gas/steam plant (`COGAS.get_gas_turbine_run_point_from_power_output_kw`, after D7:
the gas turbine's power is its share times the plant's power). -/
def cogas (η ratio : Rat → Rat) (rated lhv P : Rat) : CogasPoint :=
  let eff := effHat η (load rated P)
  let gas := ratio (P / rated) * P
  { fuel := P / eff / (lhv * 1000) / 1000, eff := eff, gas := gas, steam := P - gas }

/-- The gas turbine's share at a load: that of the two given power curves at that load (D106); where neither turbine
delivers power there is no share of its own and the share of the curve points holds (`fb`). -/
def shareOf (g s fb : Rat → Rat) (l : Rat) : Rat :=
  if g l + s l = 0 then fb l else g l / (g l + s l)

/-- As found (before D106): the share was interpolated from point to point - here linearly between two neighbouring points
`(l0, r0)`, `(l1, r1)` of the share curve, which is what any interpolation of the *shares* does on collinear power curves. -/
def shareLegacyLinear (l0 r0 l1 r1 l : Rat) : Rat := r0 + (l - l0) / (l1 - l0) * (r1 - r0)

/-- As found (D7): the "power" of the gas turbine was the share itself. -/
def cogasGasLegacy (ratio : Rat → Rat) (rated P : Rat) : Rat := ratio (P / rated)

/-- Running hours: the intervals in which the machine delivers power. -/
def runningHours : List Rat → List Rat → Rat
  | p :: ps, d :: ds => (if p ≠ 0 then d else 0) / 3600 + runningHours ps ds
  | _, _ => 0

end Feems.Engine
