/-
Electric power balance of one time step (`feems/components_model/node.py:615-776`,
`feems/system_model.py:605-645`): per-switchboard net load on the equal-sharing units and their
available capacity, the load fraction of each bus (group of switchboards), and the write-back of
source outputs and of the inputs of balancing storage / PTI/PTO units.

A series calculation is this step function at every step (numpy arithmetic is element-wise) with
the bus grouping of that step (`Bus.breakersAt`, C02).
-/
import FeemsModel.Model.Basic

namespace Feems.Electric

/-- A power source: `share = 0` means equal load sharing, otherwise the fixed fraction of rating. -/
structure Src where
  rated : Rat
  status : Bool
  share : Rat
  deriving Repr

/-- An energy-storage or PTI/PTO unit: `mode = 0` means balancing (it shares the bus load like a
source), otherwise `given` is its electrical input (positive = drawing from the bus). -/
structure Bal where
  rated : Rat
  status : Bool
  mode : Rat
  given : Rat
  deriving Repr

structure Swb where
  id : Nat
  sources : List Src
  balancers : List Bal
  consumers : List Rat
  deriving Repr

/-- `np.ceil(np.absolute(load_sharing_mode))`. -/
def ceilAbs (x : Rat) : Rat := ((rabs x).ceil : Int)

def Src.avail (s : Src) : Rat := s.rated * b2r s.status
def Bal.avail (b : Bal) : Rat := b.rated * b2r b.status

/-- `get_sum_load_kw_sources_symmetric`: consumers + given inputs (× mode, as written) −
fixed-share source outputs. -/
def Swb.netLoad (w : Swb) : Rat :=
  rsum w.consumers + rsum (w.balancers.map fun b => b.given * b.mode)
    - rsum (w.sources.map fun s => s.share * s.avail)

/-- `get_sum_power_avail_for_power_sources_symmetric` (without the `np.round(·, 10)`). -/
def Swb.capacity (w : Swb) : Rat :=
  rsum (w.sources.map Src.avail) + rsum (w.balancers.map Bal.avail)
    - rsum (w.sources.map fun s => ceilAbs s.share * s.avail)
    - rsum (w.balancers.map fun b => ceilAbs b.mode * b.avail)

def busLoad (g : List Swb) : Rat := rsum (g.map Swb.netLoad)
def busCap (g : List Swb) : Rat := rsum (g.map Swb.capacity)

/-- Load fraction of a bus: `0` where the net load is zero, else load / capacity
(`system_model.py:620-629`). With zero capacity and non-zero load the code divides by zero;
`defined` says when that does not happen. -/
def loadFrac (g : List Swb) : Rat := if busLoad g = 0 then 0 else busLoad g / busCap g

def defined (g : List Swb) : Bool := busLoad g = 0 || busCap g != 0

/-- `set_power_out_power_sources`, sources. -/
def srcOut (lam : Rat) (s : Src) : Rat :=
  if s.share = 0 ∧ s.status = true then s.rated * lam * b2r s.status
  else s.rated * s.share * b2r s.status

/-- `set_power_out_power_sources`, storage and PTI/PTO: balancing units get `−rated·λ·status`. -/
def balIn (lam : Rat) (b : Bal) : Rat :=
  if b.mode = 0 then -b.rated * lam * b2r b.status else b.given

/-- The switchboards on the same bus as `w` under the labelling `lab`. -/
def busOf (lab : Nat → Nat) (plant : List Swb) (w : Swb) : List Swb :=
  plant.filter fun v => lab v.id = lab w.id

/-- One step of `do_power_balance_calculation`: for every switchboard the source outputs and the
storage / PTI/PTO inputs; `none` where the bus load fraction is undefined. -/
def balance (lab : Nat → Nat) (plant : List Swb) : List (Nat × Option (List Rat × List Rat)) :=
  plant.map fun w =>
    let g := busOf lab plant w
    (w.id, if defined g then some (w.sources.map (srcOut (loadFrac g)), w.balancers.map (balIn (loadFrac g)))
           else none)

end Feems.Electric
