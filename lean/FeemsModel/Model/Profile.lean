/-
Operating-profile input routes of the front end (`RunFEEMSSim/RunFeemsSim/machinery_calculation.py`,
`MachSysS/convert_proto_timeseries.py`): a ship-simulation (Gymir) result, a time-stamped propulsion
power series, a protobuf time-series message, or operating points with durations — each reduced to
(propulsion power per interval, auxiliary power per interval, interval lengths), then divided
equally among the propulsors (as delivered power) and the auxiliary loads.
-/
import FeemsModel.Model.Basic

namespace Feems.Profile

structure Prepared where
  P : List Rat
  aux : List Rat
  dt : List Rat
  deriving Repr, DecidableEq

/-- Auxiliary power as one value or as a series. -/
inductive Aux where
  | scalar (a : Rat)
  | series (as : List Rat)
  deriving Repr

/-- `np.diff`. -/
def diffs : List Rat → List Rat
  | a :: b :: rest => (b - a) :: diffs (b :: rest)
  | _ => []

/-- `np.atleast_1d(aux)`; longer than one: `aux[:n]`, else `np.repeat(aux, n)`. -/
def auxFor (n : Nat) : Aux → List Rat
  | .scalar a => List.replicate n a
  | .series as => if as.length > 1 then as.take n else List.replicate n (as.headD 0)

/-- Time-stamped series: sample `k` is held until sample `k+1`; the last sample only closes the
last interval. -/
def fromSeries (t P : List Rat) (aux : Aux) : Prepared :=
  let P' := P.dropLast
  { P := P', aux := auxFor P'.length aux, dt := diffs t }

/-- Operating points with durations. -/
def fromStatistics (P dt : List Rat) (aux : Aux) : Prepared :=
  { P := P, aux := auxFor P.length aux, dt := dt }

/-- Gymir result: `(epoch, power)` records and one auxiliary load for the whole voyage. -/
def fromGymir (records : List (Rat × Rat)) (auxLoad : Rat) : Prepared :=
  fromSeries (records.map (·.1)) (records.map (·.2)) (.scalar auxLoad)

/-- The samples that are held over an interval: all but the closing one (a single record is kept). -/
def heldSamples (per : List Rat) : List Rat := if per.length > 1 then per.dropLast else per

/-- Protobuf time series: `(epoch, propulsion, auxiliary)` records; the per-sample auxiliary power
is used unless it is zero in every record that is held over an interval, then the message-level value
(the closing record decides nothing: D134). -/
def fromProto (records : List (Rat × Rat × Rat)) (auxMsg : Rat) : Prepared :=
  let per := records.map (·.2.2)
  let aux := if (heldSamples per).all (· == 0) then List.replicate records.length auxMsg else per
  fromSeries (records.map (·.1)) (records.map (·.2.1)) (.series aux)

/-- As found: the closing record took part in the test. -/
def fromProtoLegacy (records : List (Rat × Rat × Rat)) (auxMsg : Rat) : Prepared :=
  let per := records.map (·.2.2)
  let aux := if per.all (· == 0) then List.replicate records.length auxMsg else per
  fromSeries (records.map (·.1)) (records.map (·.2.1)) (.series aux)

/-- Equal division among `k` propulsors (delivered power) and `m` auxiliary loads (input power). -/
def split (p : Prepared) (k m : Nat) : List Rat × List Rat :=
  (p.P.map (· / k), p.aux.map (· / m))

/-- Number of propulsors of a plant (`MachineryCalculation`): the electric propulsion drives and, for a vessel
with shaft lines, the mechanical loads on them (after D34). -/
def propulsors (drives mechLoads : Nat) (hasShaftLines : Bool) : Nat :=
  drives + (if hasShaftLines then mechLoads else 0)

/-- The divisor as found (D34): for a vessel with shaft lines only the mechanical loads were counted, although the
drives were handed a share too. -/
def propulsorsLegacy (drives mechLoads : Nat) (hasShaftLines : Bool) : Nat :=
  if hasShaftLines then mechLoads else drives

/-- Power handed out in total at one sample when each of the `receivers` gets `P / divisor`. -/
def handedOut (P : Rat) (receivers divisor : Nat) : Rat := receivers * (P / divisor)

end Feems.Profile
