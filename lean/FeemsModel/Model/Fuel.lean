/-
Fuel-consumption records (`feems/fuel.py`): `FuelConsumption.__add__`, `__mul__`,
`total_fuel_consumption`, `fuel_by_mass_fraction`, the tank-to-wake / well-to-tank
formulas and the mix rule of `FuelByMassFraction.get_kg_co2_per_kg_fuel`.

A record is the *list* the code manipulates (so that an algorithmic slip such as
matching one right-hand entry twice is visible), over an arbitrary mass type `M`:
`Rat` for scalar masses, functions / vectors for time series (numpy arithmetic is
element-wise, so a series operation is the scalar one at every step — that is what the
correspondence checks and what the generic theorems cover).
-/
import FeemsModel.Model.Basic

namespace Feems.Fuel

/-- What `__add__` matches on: fuel type, origin and `fuel_specified_by` (enum numbers). -/
structure Kind where
  type : Nat
  origin : Nat
  spec : Nat
  deriving DecidableEq, Repr

abbrev Rec (M : Type) := List (Kind × M)

variable {M : Type}

def kinds (r : Rec M) : List Kind := r.map (·.1)

/-- `np.sum([fuel.mass for fuel in fuels], axis=0)`. -/
def total [Add M] [Zero M] (r : Rec M) : M := r.foldr (fun e acc => e.2 + acc) 0

/-- Mass of one kind (sum over the entries of that kind; at most one in a well-formed record). -/
def massOf [Add M] [Zero M] (k : Kind) (r : Rec M) : M :=
  total (r.filter (fun e => e.1 = k))

/-- First entry of `b` with the kind `k`: `next(filter(lambda x: same kind, other.fuels))`. -/
def firstOf (k : Kind) (b : Rec M) : Option (Kind × M) := b.find? (fun e => e.1 = k)

/-- The loop over `self.fuels`: add the first matching entry of `other`, else copy. -/
def addMatched [Add M] (a b : Rec M) : Rec M :=
  a.map (fun e => match firstOf e.1 b with
    | some e' => (e.1, e.2 + e'.2)
    | none => e)

/-- The loop over `other.fuels`: keep the entries whose *index* was not matched.  An entry was
matched iff its kind occurs in `self` and it is the first of its kind in `other`
(`seen` = kinds of the entries of `other` before this one). -/
def addRest (aks : List Kind) : List Kind → Rec M → Rec M
  | _, [] => []
  | seen, e :: b =>
    if e.1 ∈ aks ∧ e.1 ∉ seen then addRest aks (e.1 :: seen) b
    else e :: addRest aks (e.1 :: seen) b

/-- `FuelConsumption.__add__` (`fuel.py:590-616`). -/
def add [Add M] (a b : Rec M) : Rec M :=
  if a.isEmpty then b else addMatched a b ++ addRest (kinds a) [] b

/-- `FuelConsumption.__mul__`: every mass times the factor. -/
def scale [Mul M] (r : Rec M) (c : M) : Rec M := r.map (fun e => (e.1, e.2 * c))

/-- `fuel_by_mass_fraction` for a scalar record: empty when nothing was consumed. -/
def fractions (r : Rec Rat) : Rec Rat :=
  if total r = 0 then [] else r.map (fun e => (e.1, e.2 / total r))

/-- A record never lists one kind twice. -/
def WellFormed (r : Rec M) : Prop := (kinds r).Nodup

instance (r : Rec M) : Decidable (WellFormed r) := inferInstanceAs (Decidable (List.Nodup _))

/-! ### Greenhouse-gas factors -/

/-- One row of tank-to-wake factors (`GhgEmissionFactorTankToWake`). -/
structure Ttw where
  co2 : Rat
  ch4 : Rat
  n2o : Rat
  slip : Rat          -- percent
  deriving Repr, DecidableEq

def gwpCH4 : Rat := 25
def gwpN2O : Rat := 298

/-- `ghg_emission_factor_gco2eq_per_gfuel` (`fuel.py:157-163`). -/
def Ttw.factor (r : Ttw) : Rat :=
  (1 - r.slip / 100) * (r.co2 + r.ch4 * gwpCH4 + r.n2o * gwpN2O) + r.slip / 100 * gwpCH4

/-- The three figures carried by `GHGEmissions`. -/
structure Ghg where
  ttw : Rat := 0
  wtt : Rat := 0
  ttwNoSlip : Rat := 0
  deriving Repr, DecidableEq

def Ghg.add (a b : Ghg) : Ghg := ⟨a.ttw + b.ttw, a.wtt + b.wtt, a.ttwNoSlip + b.ttwNoSlip⟩
def Ghg.smul (a : Ghg) (c : Rat) : Ghg := ⟨a.ttw * c, a.wtt * c, a.ttwNoSlip * c⟩
def Ghg.wtw (a : Ghg) : Rat := a.ttw + a.wtt

/-- Per-fuel factors as resolved for one consumer class: the row used and `LHV`, upstream. -/
structure Factors where
  row : Ttw
  lhv : Rat           -- MJ/g
  wttPerMJ : Rat      -- gCO2eq/MJ
  deriving Repr

def Factors.ghg (f : Factors) : Ghg :=
  ⟨f.row.factor, f.wttPerMJ * f.lhv, f.row.co2⟩

/-- `get_kg_co2_per_kg_fuel`: Σ factor_i · fraction_i. -/
def mixFactor (fs : List (Factors × Rat)) : Ghg :=
  fs.foldl (fun acc e => acc.add (e.1.ghg.smul e.2)) {}

/-- `get_total_co2_emissions`: total mass × mix factor of the mass fractions
(zero when nothing was consumed: the fraction record is then empty). -/
def totalEmissions (fs : List (Factors × Rat)) : Ghg :=
  let tot := rsum (fs.map (·.2))
  if tot = 0 then {} else (mixFactor (fs.map (fun e => (e.1, e.2 / tot)))).smul tot

end Feems.Fuel
