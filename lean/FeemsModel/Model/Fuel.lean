/-
Fuel-consumption records (`feems/fuel.py`): the record type, `fuel_by_mass_fraction`, the
tank-to-wake / well-to-tank formulas and the mix rule of
`FuelByMassFraction.get_kg_co2_per_kg_fuel`.  `__add__`, `__mul__`, totals: `KeyedList.lean`.
-/
import FeemsModel.Model.KeyedList

namespace Feems.Fuel
export Feems.KV (kinds total massOf takeFirst firstOf addMatched addRest add addLegacy addSpec scale WellFormed)

/-- What `__add__` matches on: fuel type, origin and `fuel_specified_by` (enum numbers). -/
structure Kind where
  type : Nat
  origin : Nat
  spec : Nat
  deriving DecidableEq, Repr

abbrev Rec (M : Type) := KV.Rec Kind M

/-- `fuel_by_mass_fraction` for a scalar record: empty when nothing was consumed. -/
def fractions (r : Rec Rat) : Rec Rat :=
  if total r = 0 then [] else r.map (fun e => (e.1, e.2 / total r))

/-! ### Greenhouse-gas factors -/

/-- One row of tank-to-wake factors (`GhgEmissionFactorTankToWake`). -/
structure Ttw where
  co2 : Rat
  ch4 : Rat
  n2o : Rat
  slip : Rat          -- percent
  deriving Repr, DecidableEq

def gwpCH4 : Rat := 25
def gwpN2O : Rat := 298

/-- `ghg_emission_factor_gco2eq_per_gfuel` (`fuel.py:157-163`). -/
def Ttw.factor (r : Ttw) : Rat :=
  (1 - r.slip / 100) * (r.co2 + r.ch4 * gwpCH4 + r.n2o * gwpN2O) + r.slip / 100 * gwpCH4

/-- The three figures carried by `GHGEmissions`. -/
structure Ghg where
  ttw : Rat := 0
  wtt : Rat := 0
  ttwNoSlip : Rat := 0
  deriving Repr, DecidableEq

def Ghg.add (a b : Ghg) : Ghg := ⟨a.ttw + b.ttw, a.wtt + b.wtt, a.ttwNoSlip + b.ttwNoSlip⟩
def Ghg.smul (a : Ghg) (c : Rat) : Ghg := ⟨a.ttw * c, a.wtt * c, a.ttwNoSlip * c⟩
def Ghg.wtw (a : Ghg) : Rat := a.ttw + a.wtt

/-- Per-fuel factors as resolved for one consumer class: the row used and `LHV`, upstream. -/
structure Factors where
  row : Ttw
  lhv : Rat           -- MJ/g
  wttPerMJ : Rat      -- gCO2eq/MJ
  deriving Repr

def Factors.ghg (f : Factors) : Ghg :=
  ⟨f.row.factor, f.wttPerMJ * f.lhv, f.row.co2⟩

/-- `get_kg_co2_per_kg_fuel`: Σ factor_i · fraction_i. -/
def mixFactor (fs : List (Factors × Rat)) : Ghg :=
  fs.foldl (fun acc e => acc.add (e.1.ghg.smul e.2)) {}

/-- `get_total_co2_emissions`: total mass × mix factor of the mass fractions
(zero when nothing was consumed: the fraction record is then empty). -/
def totalEmissions (fs : List (Factors × Rat)) : Ghg :=
  let tot := rsum (fs.map (·.2))
  if tot = 0 then {} else (mixFactor (fs.map (fun e => (e.1, e.2 / tot)))).smul tot

end Feems.Fuel
