/-
The protobuf system description (`MachSysS/convert_to_protobuf.py`, `convert_to_feems.py`):
a description datatype for what the converters have branches for, the message tree, `toProto`
(system → message), `toFeems` (message → system) following the branch structure of the two
converters after the repairs D10a-d,g, and `normalize` — the representational changes of a round trip
that preserve behaviour:
  * a single efficiency / consumption value comes back as the constant two-point curve;
  * stages of a serial train come back as transformer / power converter / synchronous machine;
  * a generating set's rectifier is folded into its generator's curve when the set is built
    (before any conversion: not part of this model).
Numbers are the enum numbers shared by FEEMS and the message (`Generated/EnumTables.lean`).
-/
import FeemsModel.Model.Basic

namespace Feems.Proto

abbrev Pts := List (Rat × Rat)

/-- `Efficiency` / `BSFC`: a single value or a curve. -/
inductive Curve where
  | value (v : Rat)
  | points (p : Pts)
  deriving Repr, DecidableEq

structure Fuel where
  type : Nat
  origin : Nat
  deriving Repr, DecidableEq

structure Engine where
  name : String
  rated : Rat
  speed : Rat
  bsfc : Curve
  fuel : Fuel
  nox : String                    -- NOx method by *name*
  emis : List (Nat × Pts)
  cycle : Nat
  pilot : Option (Curve × Fuel)
  deriving Repr, DecidableEq

structure Machine where
  name : String
  rated : Rat
  speed : Rat
  eff : Curve
  deriving Repr, DecidableEq

structure Conv where
  name : String
  rated : Rat
  eff : Curve
  deriving Repr, DecidableEq

structure Gear where
  name : String
  rated : Rat
  speed : Rat
  eff : Curve
  deriving Repr, DecidableEq

structure Battery where
  name : String
  capacity : Rat
  chargeRate : Rat
  dischargeRate : Rat
  effCharge : Rat
  effDischarge : Rat
  soc0 : Rat
  deriving Repr, DecidableEq

structure Supercap where
  name : String
  capacity : Rat
  rated : Rat
  effCharge : Rat
  effDischarge : Rat
  soc0 : Rat
  deriving Repr, DecidableEq

structure FuelCell where
  name : String
  rated : Rat
  eff : Curve
  fuel : Fuel
  modules : Nat
  deriving Repr, DecidableEq

structure Cogas where
  name : String
  rated : Rat
  speed : Rat
  eff : Curve
  fuel : Fuel
  nox : String
  emis : List (Nat × Pts)
  split : Option (Pts × Pts)      -- gas / steam turbine power curves
  deriving Repr, DecidableEq

inductive Stage where
  | transformer (c : Conv)
  | converter (c : Conv)
  | machine (m : Machine)
  deriving Repr, DecidableEq

/-- A component on a switchboard. -/
inductive EComp where
  | generator (m : Machine)
  | genset (name : String) (e : Engine) (g : Machine)
  | fuelCell (name : String) (fc : FuelCell) (c : Conv)
  | coges (name : String) (cg : Cogas) (g : Machine)
  | load (c : Conv)
  | serial (pti : Bool) (name : String) (rated speed : Rat) (stages : List Stage)
  | battery (b : Battery)
  | batterySys (name : String) (b : Battery) (c : Conv)
  | supercap (s : Supercap)
  | supercapSys (name : String) (s : Supercap) (c : Conv)
  deriving Repr, DecidableEq

/-- A component on a shaft line (a PTI/PTO is referred to by name: it is the electric-side object). -/
inductive MComp where
  | engine (name : String) (e : Engine)
  | geared (name : String) (e : Engine) (g : Gear)
  | propeller (name : String) (rated speed : Rat) (eff : Curve)
  | pti (name : String)
  deriving Repr, DecidableEq

structure Sys where
  name : String
  kind : Nat                               -- 0 mechanical (+electric), 1 electric, 2 hybrid (message numbers)
  swbs : List (Nat × List EComp)
  lines : List (Nat × List MComp)
  deriving Repr, DecidableEq

/-! ### The message -/

structure Sub where
  powerType : Nat
  componentType : Nat
  name : String
  rated : Rat
  speed : Rat
  engine : Option (Engine × Nat) := none          -- (payload, order_from_switchboard_or_shaftline)
  machine : Option (Machine × Nat) := none
  transformer : Option (Conv × Nat) := none
  conv1 : Option (Conv × Nat) := none
  conv2 : Option (Conv × Nat) := none
  battery : Option (Battery × Nat) := none
  supercap : Option (Supercap × Nat) := none
  fuelCell : Option (FuelCell × Nat) := none
  cogas : Option (Cogas × Nat) := none
  otherLoad : Option (Conv × Nat) := none
  gear : Option (Gear × Nat) := none
  propeller : Option (Curve × Nat) := none
  deriving Repr, DecidableEq

instance : Inhabited Sub := ⟨{ powerType := 0, componentType := 0, name := "", rated := 0, speed := 0 }⟩

structure Msg where
  name : String
  kind : Nat
  swbs : List (Nat × List Sub)
  lines : List (Nat × List Sub)
  deriving Repr, DecidableEq

/-! ### enum numbers used by the converters -/
def tMainEngine := 1
def tGenerator := 3
def tDrive := 4
def tOtherLoad := 5
def tPtiPto := 6
def tBatterySys := 7
def tFuelCellSys := 8
def tGeared := 10
def tGenset := 12
def tPropeller := 22
def tBattery := 24
def tSupercap := 25
def tSupercapSys := 26
def tCoges := 29
def pSource := 1
def pConsumer := 2
def pPtiPto := 3
def pStorage := 4

/-! ### normalisation -/

/-- On export a single value is written as the two points `(0, v), (1, v)`
(`_efficiency_points` / `specific_fuel_consumption_points` hold that curve). -/
def Curve.norm : Curve → Curve
  | .value v => .points [(0, v), (1, v)]
  | .points p => .points p

def Engine.norm (e : Engine) : Engine :=
  { e with bsfc := e.bsfc.norm, pilot := e.pilot.map fun p => (p.1.norm, p.2) }
def Machine.norm (m : Machine) : Machine := { m with eff := m.eff.norm }
def Conv.norm (c : Conv) : Conv := { c with eff := c.eff.norm }
def Gear.norm (g : Gear) : Gear := { g with eff := g.eff.norm }
def FuelCell.norm (f : FuelCell) : FuelCell := { f with eff := f.eff.norm, modules := max 1 f.modules }
def Cogas.norm (c : Cogas) : Cogas := { c with eff := c.eff.norm }
def Stage.norm : Stage → Stage
  | .transformer c => .transformer c.norm
  | .converter c => .converter c.norm
  | .machine m => .machine m.norm

def EComp.norm : EComp → EComp
  | .generator m => .generator m.norm
  | .genset n e g => .genset n e.norm g.norm
  | .fuelCell n fc c => .fuelCell n fc.norm c.norm
  | .coges n cg g => .coges n cg.norm g.norm
  | .load c => .load c.norm
  | .serial pti n r s st => .serial pti n r s (st.map Stage.norm)
  | .battery b => .battery b
  | .batterySys n b c => .batterySys n b c.norm
  | .supercap s => .supercap s
  | .supercapSys n s c => .supercapSys n s c.norm

def MComp.norm : MComp → MComp
  | .engine n e => .engine n e.norm
  | .geared n e g => .geared n e.norm g.norm
  | .propeller n r s eff => .propeller n r s eff.norm
  | .pti n => .pti n

def Sys.norm (s : Sys) : Sys :=
  { s with swbs := s.swbs.map fun (i, cs) => (i, cs.map EComp.norm),
           lines := s.lines.map fun (i, cs) => (i, cs.map MComp.norm) }

/-! ### system → message -/

/-- stages into the slots of the message: one transformer, two converters, one machine; the
order number is the stage's position (1-based). A later stage of a kind overwrites the slot
(a third converter overwrites `converter2`): such trains are outside `Representable`. -/
def putStages (sub : Sub) : List Stage → Nat → Sub
  | [], _ => sub
  | .transformer c :: rest, k => putStages { sub with transformer := some (c.norm, k) } rest (k + 1)
  | .converter c :: rest, k =>
    putStages (if sub.conv1.isNone then { sub with conv1 := some (c.norm, k) } else { sub with conv2 := some (c.norm, k) }) rest (k + 1)
  | .machine m :: rest, k => putStages { sub with machine := some (m.norm, k) } rest (k + 1)

def ecompToSub : EComp → Sub
  | .generator m =>
    { powerType := pSource, componentType := tGenerator, name := m.name, rated := m.rated, speed := m.speed, machine := some (m.norm, 1) }
  | .genset n e g =>
    { powerType := pSource, componentType := tGenset, name := n, rated := g.rated, speed := g.speed,
      machine := some (g.norm, 1), engine := some (e.norm, 2) }
  | .fuelCell n fc c =>
    { powerType := pSource, componentType := tFuelCellSys, name := n, rated := c.rated, speed := 0,
      conv1 := some (c.norm, 1), fuelCell := some ({ fc with eff := fc.eff.norm }, 2) }
  | .coges n cg g =>
    { powerType := pSource, componentType := tCoges, name := n, rated := g.rated, speed := g.speed,
      cogas := some (cg.norm, 2), machine := some (g.norm, 1) }
  | .load c =>
    { powerType := pConsumer, componentType := tOtherLoad, name := c.name, rated := c.rated, speed := 0, otherLoad := some (c.norm, 1) }
  | .serial pti n r s stages =>
    putStages { powerType := if pti then pPtiPto else pConsumer, componentType := if pti then tPtiPto else tDrive,
                name := n, rated := r, speed := s } stages 1
  | .battery b =>
    { powerType := pStorage, componentType := tBattery, name := b.name, rated := b.capacity * b.dischargeRate, speed := 0, battery := some (b, 1) }
  | .batterySys n b c =>
    { powerType := pStorage, componentType := tBatterySys, name := n, rated := c.rated, speed := 0,
      conv1 := some (c.norm, 1), battery := some (b, 2) }
  | .supercap s =>
    { powerType := pStorage, componentType := tSupercap, name := s.name, rated := s.rated, speed := 0, supercap := some (s, 1) }
  | .supercapSys n s c =>
    { powerType := pStorage, componentType := tSupercapSys, name := n, rated := s.rated, speed := 0,
      conv1 := some (c.norm, 1), supercap := some (s, 2) }

def isPti : EComp → Bool
  | .serial true _ _ _ _ => true
  | _ => false

def isPtiNamed (n : String) : EComp → Bool
  | .serial true n' _ _ _ => n' == n
  | _ => false

/-- `ptis`: the electric-side PTI/PTO components, looked up by name for the shaft line. -/
def mcompToSub (ptis : List EComp) : MComp → Option Sub
  | .engine n e =>
    some { powerType := pSource, componentType := tMainEngine, name := n, rated := e.rated, speed := e.speed, engine := some (e.norm, 1) }
  | .geared n e g =>
    some { powerType := pSource, componentType := tGeared, name := n, rated := e.rated, speed := e.speed,
           engine := some (e.norm, 2), gear := some (g.norm, 1) }
  | .propeller n r s eff =>
    some { powerType := pConsumer, componentType := tPropeller, name := n, rated := r, speed := s, propeller := some (eff.norm, 2) }
  | .pti n =>
    (ptis.find? (isPtiNamed n)).map ecompToSub

def allPtis (s : Sys) : List EComp :=
  (s.swbs.map (·.2)).flatten.filter isPti

def toProto (s : Sys) : Option Msg := do
  let lines ← s.lines.mapM fun (i, cs) => do
    let subs ← cs.mapM (mcompToSub (allPtis s))
    pure (i, subs)
  pure { name := s.name, kind := s.kind, swbs := s.swbs.map fun (i, cs) => (i, cs.map ecompToSub), lines := lines }

/-! ### message → system -/

/-- `collect_electric_components_from_sub_system` + sort by order: the stages of a serial train. -/
def insertByOrder (x : Stage × Nat) : List (Stage × Nat) → List (Stage × Nat)
  | [] => [x]
  | y :: ys => if x.2 < y.2 then x :: y :: ys else y :: insertByOrder x ys

def stagesOf (sub : Sub) : List Stage :=
  -- field order of the converter: electric_machine, transformer, converter1, converter2; stable sort by order
  let xs : List (Stage × Nat) :=
    (sub.machine.toList.map fun (m, k) => (Stage.machine m, k)) ++ (sub.transformer.toList.map fun (c, k) => (Stage.transformer c, k))
      ++ (sub.conv1.toList.map fun (c, k) => (Stage.converter c, k)) ++ (sub.conv2.toList.map fun (c, k) => (Stage.converter c, k))
  (xs.foldr insertByOrder []).map (·.1)

def subToEComp (sub : Sub) : Except String EComp :=
  if sub.componentType = tFuelCellSys then
    match sub.fuelCell, sub.conv1 with
    | some (fc, _), some (c, _) => .ok (.fuelCell sub.name { fc with modules := max 1 fc.modules } c)
    | _, _ => .error "fuel cell system without cell or converter"
  else if sub.componentType = tGenset then
    match sub.engine, sub.machine with
    | some (e, _), some (g, _) => .ok (.genset sub.name e g)
    | _, _ => .error "genset without engine or generator"
  else if sub.componentType = tCoges then
    match sub.cogas, sub.machine with
    | some (cg, _), some (g, _) => .ok (.coges sub.name cg g)
    | _, _ => .error "COGES without COGAS or generator"
  else if sub.componentType = tBatterySys then
    match sub.battery, sub.conv1 with
    | some (b, _), some (c, _) => .ok (.batterySys sub.name b c)
    | _, _ => .error "battery system without battery or converter"
  else if sub.componentType = tBattery then
    match sub.battery with
    | some (b, _) => .ok (.battery b)
    | none => .error "battery missing"
  else if sub.componentType = tSupercapSys then
    match sub.supercap, sub.conv1 with
    | some (s, _), some (c, _) => .ok (.supercapSys sub.name s c)
    | _, _ => .error "supercapacitor system without supercapacitor or converter"
  else if sub.componentType = tSupercap then
    match sub.supercap with
    | some (s, _) => .ok (.supercap s)
    | none => .error "supercapacitor missing"
  else
    -- the generic branch: one component, or a serial train
    match sub.otherLoad, stagesOf sub with
    | some (c, _), [] => if sub.componentType = tOtherLoad then .ok (.load c) else .error "single component of unexpected type"
    | none, [s] =>
      -- a PTI/PTO stays a PTI/PTO, a propulsion drive a serial system, also with a single member (repo 1ca4f7b, 3b499f2; as
      -- found the reader refused the first and read the second as a plain machine it could not write again)
      if sub.componentType = tPtiPto then .ok (.serial true sub.name sub.rated sub.speed [s])
      else if sub.componentType = tDrive then .ok (.serial false sub.name sub.rated sub.speed [s])
      else match s with
        | .machine m => if sub.componentType = tGenerator then .ok (.generator m) else .error "single machine: not representable as a train"
        | _ => .error "subsystem not understood"
    | none, st@(_ :: _ :: _) =>
      if sub.componentType = tPtiPto then .ok (.serial true sub.name sub.rated sub.speed st)
      else if sub.componentType = tDrive then .ok (.serial false sub.name sub.rated sub.speed st)
      else .error "serial train of unexpected type"
    | _, _ => .error "subsystem not understood"

def subToMComp (sub : Sub) : Except String MComp :=
  if sub.componentType = tMainEngine then
    match sub.engine with
    | some (e, _) => .ok (.engine sub.name e)
    | none => .error "main engine without engine"
  else if sub.componentType = tGeared then
    match sub.engine, sub.gear with
    | some (e, _), some (g, _) => .ok (.geared sub.name e g)
    | _, _ => .error "geared main engine without engine or gear"
  else if sub.componentType = tPtiPto then .ok (.pti sub.name)
  else if sub.componentType = tPropeller then
    match sub.propeller with
    | some (eff, _) => .ok (.propeller sub.name sub.rated sub.speed eff)
    | none => .error "propeller missing"
  else .error "component type not supported on a shaft line"

def toFeems (m : Msg) : Except String Sys := do
  let swbs ← m.swbs.mapM fun (i, subs) => do
    let cs ← subs.mapM subToEComp
    pure (i, cs)
  let lines ← m.lines.mapM fun (i, subs) => do
    let cs ← subs.mapM subToMComp
    pure (i, cs)
  pure { name := m.name, kind := m.kind, swbs := swbs, lines := lines }

/-! ### The bus-tie breakers the reader invents (the message keeps none) -/

/-- Breakers of the plant read back: the switchboards in a chain in the order of their numbers. -/
def insertSorted (a : Nat) : List Nat → List Nat
  | [] => [a]
  | b :: r => if a ≤ b then a :: b :: r else b :: insertSorted a r

def sortIds (ids : List Nat) : List Nat := ids.foldr insertSorted []

def chainOf (ids : List Nat) : List (Nat × Nat) :=
  (sortIds ids).zip (sortIds ids).tail

/-- As found (before repo d4aeffd): a chain by position, whatever the numbers are. -/
def chainLegacy (ids : List Nat) : List (Nat × Nat) :=
  (List.range (ids.length - 1)).map fun i => (i + 1, i + 2)

end Feems.Proto
