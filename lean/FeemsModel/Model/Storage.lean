/-
Batteries and supercapacitors (`component_electric.py:176-308`, `:700-870`):
terminal power → power credited to the store, stored energy, state of charge.
The converter of a battery / supercapacitor *system* is a parameter `conv`
(terminal power ↦ power at the cell terminals; `id` without converter); the theorems
constrain it only by the contract of C06 (it never creates energy).
-/
import FeemsModel.Model.Integrate

namespace Feems.Storage
open Feems.Integrate

/-- `get_power_output_from_bidirectional_input`: `× η_c` while charging (`p > 0`),
`/ η_d` otherwise (scalar and array branches agree: at `p = 0` both give 0). -/
def cell (ηc ηd p : Rat) : Rat := if 0 < p then p * ηc else p / ηd

/-- `get_power_input_from_bidirectional_output`: the inverse direction (`>= 0` in the scalar
branch). -/
def terminal (ηc ηd q : Rat) : Rat := if 0 ≤ q then q / ηc else q * ηd

structure Store where
  ηc : Rat
  ηd : Rat
  soc0 : Rat
  capacity : Rat        -- kWh (battery) or Wh (supercapacitor)
  supercap : Bool
  deriving Repr

/-- Power credited to the store at each sample, after converter loss. -/
def storedPower (s : Store) (conv : Rat → Rat) (ps : List Rat) : List Rat :=
  ps.map fun p => cell s.ηc s.ηd (conv p)

/-- `get_energy_stored_kj` (total). -/
def energy (s : Store) (conv : Rat → Rat) (ps : List Rat) (tb : TimeBase) : Option Rat :=
  integrate (storedPower s conv ps) tb

/-- `get_energy_stored_kj(accumulated_time_series=True)`. -/
def energyAcc (s : Store) (conv : Rat → Rat) (ps dts : List Rat) : List Rat :=
  accumulate (storedPower s conv ps) dts

/-- kJ → fraction of capacity: `/3600/kWh` for a battery, `/3.6/Wh` for a supercapacitor. -/
def socOf (s : Store) (e : Rat) : Rat :=
  if s.supercap then e / (36 / 10) / s.capacity + s.soc0 else e / 3600 / s.capacity + s.soc0

def soc (s : Store) (conv : Rat → Rat) (ps : List Rat) (tb : TimeBase) : Option Rat :=
  (energy s conv ps tb).map (socOf s)

def socAcc (s : Store) (conv : Rat → Rat) (ps dts : List Rat) : List Rat :=
  (energyAcc s conv ps dts).map (socOf s)

/-! ### A constant held as a single value (it stands for the whole series: repo 4fdb0b1, 1712c67) -/

def spread (ps : List Rat) (n : Nat) : List Rat :=
  match ps with
  | [p] => List.replicate n p
  | _ => ps

def energyC (s : Store) (conv : Rat → Rat) (ps : List Rat) : TimeBase → Option Rat
  | .series dts => energy s conv (spread ps dts.length) (.series dts)
  | tb => energy s conv ps tb

def energyAccC (s : Store) (conv : Rat → Rat) (ps dts : List Rat) : List Rat :=
  energyAcc s conv (spread ps dts.length) dts

def socC (s : Store) (conv : Rat → Rat) (ps : List Rat) (tb : TimeBase) : Option Rat :=
  (energyC s conv ps tb).map (socOf s)

def socAccC (s : Store) (conv : Rat → Rat) (ps dts : List Rat) : List Rat :=
  (energyAccC s conv ps dts).map (socOf s)

end Feems.Storage
