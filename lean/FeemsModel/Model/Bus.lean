/-
Bus grouping from bus-tie breaker status (`feems/system_model.py`, `switchboard2bus_configuration`):
the change indices of the breaker status series, for each configuration period the label of every
switchboard (two switchboards on one bus iff same label), the bus count and the renumbering to
1..k in order of first appearance.

`group` is the algorithm after the repair of D1: a closed breaker relabels the *whole* group of its
second end.  `groupLegacy` is the merge map as found (it ignores transitive merges and gives up —
`none` = `NotImplementedError` — when a breaker joins two already merged buses).
-/
import FeemsModel.Model.Basic

namespace Feems.Bus

/-- A bus-tie breaker between two switchboards (ids), with its status at one time step. -/
structure Breaker where
  a : Nat
  b : Nat
  closed : Bool
  deriving Repr, DecidableEq

/-- Every switchboard carrying label `frm` gets label `to`. -/
def relabel (lab : Nat → Nat) (frm to : Nat) : Nat → Nat := fun s => if lab s = frm then to else lab s

def mergeStep (lab : Nat → Nat) (br : Breaker) : Nat → Nat :=
  if br.closed then relabel lab (lab br.b) (lab br.a) else lab

/-- Labels after processing the breakers in declaration order, from the initial labelling
(the code starts from the index in the sorted switchboard list: an injective labelling). -/
def groupFrom (init : Nat → Nat) (brs : List Breaker) : Nat → Nat := brs.foldl mergeStep init

def group (brs : List Breaker) : Nat → Nat := groupFrom id brs

/-- First occurrences, in order. -/
def distinct : List Nat → List Nat
  | [] => []
  | x :: xs => x :: (distinct xs).filter (· ≠ x)

/-- Number of buses: the number of distinct labels among the switchboards. -/
def noBus (swbs : List Nat) (lab : Nat → Nat) : Nat := (distinct (swbs.map lab)).length

/-- Consecutive bus ids 1..k in order of first appearance over the (sorted) switchboard list. -/
def renumber (swbs : List Nat) (lab : Nat → Nat) : Nat → Nat := fun s =>
  (distinct (swbs.map lab)).idxOf (lab s) + 1

/-- `switchboard2bus` of one configuration: `[(switchboard, bus id)]`. -/
def busMap (swbs : List Nat) (brs : List Breaker) : List (Nat × Nat) :=
  swbs.map fun s => (s, renumber swbs (group brs) s)

/-- The power balance keeps its bus sums under the numbers `1..n`, `n` the number of switchboards
(`_get_sum_buses`): a switchboard's power can be filed iff its bus number lies in that range. -/
def sumDefined (swbs : List Nat) (bus : Nat) : Bool := decide (1 ≤ bus ∧ bus ≤ swbs.length)

/-- The map of a plant without breakers as found (D26): the only switchboard's bus carried the
switchboard's own number. -/
def busMapSingleLegacy (s : Nat) : List (Nat × Nat) := [(s, s)]

/-! ### Status series -/

/-- Position of one breaker at step `t`: a breaker that is not operated keeps a single value, which
stands for the whole series (`get_bus_tie_status`, after D51). -/
def positionAt (row : List Bool) (t : Nat) : Bool :=
  match row with
  | [c] => c
  | _ => row.getD t false

/-- Column `t` of the status matrix (one row per breaker). -/
def column (status : List (List Bool)) (t : Nat) : List Bool := status.map fun row => positionAt row t

/-- `bus_configuration_change_index`: 0 and every `t` at which some breaker differs from `t-1`. -/
def changeIdx (status : List (List Bool)) (n : Nat) : List Nat :=
  (List.range n).filter fun t => t = 0 || column status t != column status (t - 1)

/-- The change index whose period contains step `t` (the last one `≤ t`). -/
def periodStart (status : List (List Bool)) (n t : Nat) : Nat :=
  ((changeIdx status n).filter (· ≤ t)).getLast?.getD 0

/-- The breaker list with the status the code uses for step `t`: that of its period's start. -/
def breakersAt (ends : List (Nat × Nat)) (status : List (List Bool)) (n t : Nat) : List Breaker :=
  List.zipWith (fun e c => ⟨e.1, e.2, c⟩) ends (column status (periodStart status n t))

/-! ### The merge map as found (D1) -/

/-- `merge_buses` as an association list old label ↦ new label (later entries shadow). -/
def legacyStep (lab : Nat → Nat) (m : Option (List (Nat × Nat))) (br : Breaker) : Option (List (Nat × Nat)) :=
  match m with
  | none => none
  | some m =>
    if !br.closed then some m else
    let b1 := lab br.a; let b2 := lab br.b
    match m.lookup b1, m.lookup b2 with
    | some _, some _ => none                      -- NotImplementedError
    | some n1, none => some ((b2, n1) :: m)
    | none, some n2 => some ((b1, n2) :: m)
    | none, none => some ((b2, b1) :: m)

/-- Labels and bus count as the code found them; `none` = `NotImplementedError`. -/
def groupLegacy (swbs : List Nat) (brs : List Breaker) : Option ((Nat → Nat) × Nat) :=
  let init : Nat → Nat := fun s => swbs.idxOf s
  (brs.foldl (legacyStep init) (some [])).map fun m =>
    (fun s => (m.lookup (init s)).getD (init s),
     (swbs.filter fun s => (m.lookup (init s)).isNone).length)

/-! ### `set_bus_tie_status`: several breakers set in one call -/

/-- The common length of the rows of a call: that of the longest; a row of length 1 stands for a breaker that is not operated. -/
def callLength (ups : List (Nat × List Bool)) : Nat := (ups.map (·.2.length)).foldl max 0

def rowOk (len : Nat) (row : List Bool) : Bool := row.length == 1 || row.length == len

def assign (cur : List (List Bool)) (u : Nat × List Bool) : List (List Bool) :=
  if u.1 - 1 < cur.length ∧ 1 ≤ u.1 then cur.set (u.1 - 1) u.2 else cur

/-- `ElectricPowerSystem.set_bus_tie_status([(number, row), …])` (breakers are numbered from 1): every row is looked at first;
when their lengths do not agree nothing is set (`none` = `IndexError`), otherwise every row is assigned (D92). -/
def setStatus (cur : List (List Bool)) (ups : List (Nat × List Bool)) : Option (List (List Bool)) :=
  if ups.all (fun u => rowOk (callLength ups) u.2) then some (ups.foldl assign cur) else none

/-- As found: every length was compared with that of the FIRST row, and rows were assigned while they were checked - the state
the refusal leaves behind is returned next to the verdict. -/
def setStatusLegacy (cur : List (List Bool)) (ups : List (Nat × List Bool)) : List (List Bool) × Bool :=
  let len := (ups.head?.map (·.2.length)).getD 0
  ups.foldl (fun (acc : List (List Bool) × Bool) u =>
    if !acc.2 then acc else if u.2.length != len then (acc.1, false) else (assign acc.1 u, true)) (cur, true)

end Feems.Bus
