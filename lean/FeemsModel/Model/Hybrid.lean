/-
Hybrid propulsion: the PTI/PTO is one machine seen from the electric and the shaft side
(`feems/system_model.py:1151-1177`): electric balance, shaft balance, and the electric balance again
if any step of the series is in full-PTI mode.  Per step, for a PTI/PTO in given-power mode on the
electric side; `f` = shaft → electric (`get_power_input_from_bidirectional_output`), `g` = electric →
shaft (`get_power_output_from_bidirectional_input`) of that machine.
-/
import FeemsModel.Model.Basic

namespace Feems.Hybrid

structure Final where
  elecIn : Rat        -- electrical power of the PTI/PTO after the calculation
  shaftOut : Rat      -- its shaft power after the calculation
  elecUsed : Rat      -- electrical power the (last) electric balance was computed with
  shaftUsed : Rat     -- shaft power the shaft balance was computed with
  deriving Repr, DecidableEq

/-- One step. `x0`: given electrical input, `L`: shaft load of the line, `full`: full-PTI flag of
this step, `anyFull`: some step of the series is in full-PTI mode (second electric pass). -/
def step (f g : Rat → Rat) (x0 L : Rat) (full anyFull : Bool) : Final :=
  let shaft1 := g x0                         -- electric pass 1 recomputes the shaft side from the input
  let p := if full then L else shaft1        -- shaft balance: full PTI carries the whole load
  let elec2 := f p                           -- … and sets the electrical side from the shaft power
  if anyFull then
    { elecIn := elec2, shaftOut := g elec2, elecUsed := elec2, shaftUsed := p }
  else
    { elecIn := elec2, shaftOut := p, elecUsed := x0, shaftUsed := p }

/-- `HybridPropulsionSystem._check_configuration` on the PTI/PTO objects (by identity). -/
def sameMachines (elec mech : List Nat) : Bool :=
  !elec.isEmpty && !mech.isEmpty && elec.length == mech.length && elec.all (mech.contains ·)

end Feems.Hybrid
