/-
Hybrid propulsion: the PTI/PTO is one machine seen from the electric and the shaft side
(`feems/system_model.py:1151-1177`): electric balance, shaft balance, and the electric balance again
if any step of the series is in full-PTI mode (and then, when a PTI/PTO shares the bus load, the shaft
balance again).  Per step; `f` = shaft → electric (`get_power_input_from_bidirectional_output`), `g` = electric →
shaft (`get_power_output_from_bidirectional_input`) of that machine.
-/
import FeemsModel.Model.Basic

namespace Feems.Hybrid

structure Final where
  elecIn : Rat        -- electrical power of the PTI/PTO after the calculation
  shaftOut : Rat      -- its shaft power after the calculation
  elecUsed : Rat      -- electrical power the (last) electric balance was computed with
  shaftUsed : Rat     -- shaft power the shaft balance was computed with
  deriving Repr, DecidableEq

/-- One step of a PTI/PTO in given-power mode. `x0`: given electrical input, `L`: shaft load of the
line, `full`: full-PTI flag of this step, `anyFull`: some step of the series is in full-PTI mode
(second electric pass), `rebalance`: a second electric pass ran *and* some PTI/PTO of the plant
shares the bus load (load-sharing mode 0), so the shaft lines are balanced once more (D21). -/
def step (f g : Rat → Rat) (x0 L : Rat) (full anyFull rebalance : Bool) : Final :=
  let shaft1 := g x0                         -- electric pass 1 recomputes the shaft side from the input
  let p := if full then L else shaft1        -- shaft balance: full PTI carries the whole load
  let elec2 := f p                           -- … and sets the electrical side from the shaft power
  if anyFull then
    let shaft2 := g elec2                    -- electric pass 2
    if rebalance then
      let p' := if full then L else shaft2   -- shaft balance 2
      { elecIn := f p', shaftOut := p', elecUsed := elec2, shaftUsed := p' }
    else
      { elecIn := elec2, shaftOut := shaft2, elecUsed := elec2, shaftUsed := p }
  else
    { elecIn := elec2, shaftOut := p, elecUsed := x0, shaftUsed := p }

/-- One step of a PTI/PTO whose electrical power is decided by the electrical balance (load-sharing
mode 0, never full-PTI): `xb1`, `xb2` are the shares the first and the second electric pass give it. -/
def stepBalancing (f g : Rat → Rat) (xb1 xb2 : Rat) (anyFull : Bool) : Final :=
  let p1 := g xb1                            -- electric pass 1, then shaft balance 1 with that shaft power
  if anyFull then
    let p2 := g xb2                          -- electric pass 2, shaft balance 2
    { elecIn := f p2, shaftOut := p2, elecUsed := xb2, shaftUsed := p2 }
  else
    { elecIn := f p1, shaftOut := p1, elecUsed := xb1, shaftUsed := p1 }

/-- The same before the repair of D21: no shaft balance after the second electric pass, so the shaft
line was balanced with the share of the *first* pass. -/
def stepBalancingLegacy (f g : Rat → Rat) (xb1 xb2 : Rat) (anyFull : Bool) : Final :=
  let p1 := g xb1
  if anyFull then { elecIn := xb2, shaftOut := g xb2, elecUsed := xb2, shaftUsed := p1 }
  else { elecIn := f p1, shaftOut := p1, elecUsed := xb1, shaftUsed := p1 }

/-- `HybridPropulsionSystem._check_configuration` on the PTI/PTO objects (by identity). -/
def sameMachines (elec mech : List Nat) : Bool :=
  !elec.isEmpty && !mech.isEmpty && elec.length == mech.length && elec.all (mech.contains ·)

end Feems.Hybrid
