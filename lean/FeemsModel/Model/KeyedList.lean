/-
Keyed lists with additive payload: the shape shared by fuel-consumption records
(`FuelConsumption.fuels`, key = fuel kind) and by the emitted-species dictionary of a result
(`FEEMSResult.total_emission_kg`, key = species).  `add` is `FuelConsumption.__add__`
(`feems/fuel.py`), modelled on the *list* the code manipulates, so that an algorithmic slip such
as matching one right-hand entry twice is visible (it was there: D20, `addLegacy`).  The payload type `M` is arbitrary: `Rat` for
scalars, functions / vectors for time series (numpy arithmetic is element-wise).
-/
import FeemsModel.Model.Basic

namespace Feems.KV

abbrev Rec (K M : Type) := List (K × M)

variable {K M : Type} [DecidableEq K]

def kinds (r : Rec K M) : List K := r.map (·.1)

/-- `np.sum([fuel.mass for fuel in fuels], axis=0)`. -/
def total [Add M] [Zero M] (r : Rec K M) : M := r.foldr (fun e acc => e.2 + acc) 0

/-- Payload of one key (sum over the entries with that key; at most one in a well-formed list). -/
def massOf [Add M] [Zero M] (k : K) (r : Rec K M) : M :=
  total (r.filter (fun e => e.1 = k))

/-- First entry of `b` with the key `k` taken out of `b`: its payload and the remaining entries in
their order.  This is `next(index for index, x in enumerate(other.fuels) if index not in
index_fuel_added and same kind)` with `b` = the entries of `other` not yet matched. -/
def takeFirst (k : K) : Rec K M → Option (M × Rec K M)
  | [] => none
  | e :: b =>
    if e.1 = k then some (e.2, b)
    else match takeFirst k b with
      | some (m, b') => some (m, e :: b')
      | none => none

/-- `FuelConsumption.__add__` (`fuel.py:599-628`): every entry of `self`, in order, takes the first
not-yet-matched entry of `other` of its kind (or is copied); the entries of `other` that were
never matched follow in their order.  With `self` empty the result is `other`. -/
def add [Add M] : Rec K M → Rec K M → Rec K M
  | [], b => b
  | e :: a, b =>
    match takeFirst e.1 b with
    | some (m, b') => (e.1, e.2 + m) :: add a b'
    | none => e :: add a b

/-! #### The addition as found before the repair of D20

`next(filter(same kind, other.fuels))` always returned the *first* entry of that kind, matched or
not, so with a kind listed twice in `self` (main and pilot fuel of the same kind) the same entry
of `other` was added twice. -/

/-- First entry of `b` with the key `k`: `next(filter(lambda x: same kind, other.fuels))`. -/
def firstOf (k : K) (b : Rec K M) : Option (K × M) := b.find? (fun e => e.1 = k)

/-- The loop over `self.fuels`: add the first matching entry of `other`, else copy. -/
def addMatched [Add M] (a b : Rec K M) : Rec K M :=
  a.map (fun e => match firstOf e.1 b with
    | some e' => (e.1, e.2 + e'.2)
    | none => e)

/-- The loop over `other.fuels`: keep the entries whose *index* was not matched.  An entry was
matched iff its key occurs in `self` and it is the first with that key in `other`
(`seen` = keys of the entries of `other` before this one). -/
def addRest (aks : List K) : List K → Rec K M → Rec K M
  | _, [] => []
  | seen, e :: b =>
    if e.1 ∈ aks ∧ e.1 ∉ seen then addRest aks (e.1 :: seen) b
    else e :: addRest aks (e.1 :: seen) b

/-- `FuelConsumption.__add__` as found (before D20). -/
def addLegacy [Add M] (a b : Rec K M) : Rec K M :=
  if a.isEmpty then b else addMatched a b ++ addRest (kinds a) [] b

/-- Union merge of two dictionaries, left keys first:
`{k: a.get(k, 0) + b.get(k, 0) for k in {**a, **b}}`; also the closed form of `add` on
well-formed operands (`add_eq_spec`). -/
def addSpec [Add M] [Zero M] (a b : Rec K M) : Rec K M :=
  a.map (fun e => (e.1, e.2 + massOf e.1 b)) ++ b.filter (fun e => decide (e.1 ∉ kinds a))

/-- The merge as found before the repair of D6 (`types_for_feems.py:103-104`): keys of the left
operand only, `KeyError` (`none`) when the right operand lacks one of them. -/
def addLeftKeysLegacy [Add M] (a b : Rec K M) : Option (Rec K M) :=
  a.mapM (fun e => (firstOf e.1 b).map (fun e' => (e.1, e.2 + e'.2)))

/-- `FuelConsumption.__mul__`: every payload times the factor. -/
def scale [Mul M] (r : Rec K M) (c : M) : Rec K M := r.map (fun e => (e.1, e.2 * c))

/-- No key is listed twice. -/
def WellFormed (r : Rec K M) : Prop := (kinds r).Nodup

instance (r : Rec K M) : Decidable (WellFormed r) := inferInstanceAs (Decidable (List.Nodup _))

end Feems.KV
