/-
The per-component result (`get_fuel_emission_energy_balance_for_component`, `node.py:112-344`):
which figure of a result a component's series go into, by the component's type.  The series are
the state after the power balance: `pout` = `power_output`, `pin` = `power_input` (for a generator
and an auxiliary load the code first recomputes the one from the other through the component's
own conversion: the harness hands over the recomputed series), `dts` the intervals
(`integrate_data(…, sum_with_time)` = `dot`), `fuel` the mass-flow series per fuel kind of the
machine's run point, `storedKJ` what the storage unit itself reports (`get_energy_stored_kj`, C17).
-/
import FeemsModel.Model.Fuel
import FeemsModel.Model.Engine

namespace Feems.CompResult
open Feems Feems.Fuel

/-- The branches of the dispatch on `component.type` / `power_type`. -/
inductive Kind where
  | mainEngine      -- MAIN_ENGINE, MAIN_ENGINE_WITH_GEARBOX
  | genset          -- GENSET
  | fuelCell        -- FUEL_CELL_SYSTEM, FUEL_CELL
  | generator       -- GENERATOR (a shaft generator without its own engine)
  | ptiPto          -- PTI_PTO_SYSTEM
  | storage         -- power_type ENERGY_STORAGE
  | shorePower      -- SHORE_POWER
  | otherLoad       -- OTHER_LOAD, OTHER_MECHANICAL_LOAD
  | propulsion      -- PROPELLER_LOAD, PROPULSION_DRIVE
  | coges           -- COGES
  deriving DecidableEq, Repr

/-- The float figures this function writes (all others stay at their default). Energies in MJ. -/
structure Figures where
  consElectric : Rat := 0       -- energy_consumption_electric_total_mj (never written here)
  consMechanical : Rat := 0     -- energy_consumption_mechanical_total_mj
  stored : Rat := 0             -- energy_stored_total_mj
  inputMechanical : Rat := 0    -- energy_input_mechanical_total_mj
  inputElectric : Rat := 0      -- energy_input_electric_total_mj
  propulsion : Rat := 0         -- energy_consumption_propulsion_total_mj
  auxiliary : Rat := 0          -- energy_consumption_auxiliary_total_mj
  hoursMain : Rat := 0          -- running_hours_main_engines_hr
  hoursGenset : Rat := 0        -- running_hours_genset_total_hr
  hoursFuelCell : Rat := 0      -- running_hours_fuel_cell_total_hr
  hoursPtiPto : Rat := 0        -- running_hours_pti_pto_total_hr
  deriving Repr, DecidableEq

structure Out where
  fig : Figures := {}
  fuel : Fuel.Rec Rat := []       -- multi_fuel_consumption_total_kg
  loadRatio : Option Rat := none  -- load_ratio_genset (single-point series only)
  deriving Repr

/-- positive part / negative part of a series (`power_input[power_input < 0] = 0` and the converse) -/
def plusPart (xs : List Rat) : List Rat := xs.map fun x => if x < 0 then 0 else x
def minusPart (xs : List Rat) : List Rat := xs.map fun x => if 0 < x then 0 else x

/-- `integrate_multi_fuel_consumption`: every kind's mass-flow series integrated over the intervals. -/
def fuelMass (fuel : List (Fuel.Kind × List Rat)) (dts : List Rat) : Fuel.Rec Rat :=
  fuel.map fun e => (e.1, dot e.2 dts)

/-- `load_ratio_genset` is filled in for a single-point series only. -/
def singleLoad : List Rat → Option Rat
  | [l] => some l
  | _ => none

/-- Does the machine report fuel? -/
def Kind.burnsFuel : Kind → Bool
  | .mainEngine | .genset | .fuelCell | .coges => true
  | _ => false

/-- The dispatch. `mechSide`: the component is evaluated as part of the mechanical system
(`isSystemMechanical`, only looked at for a PTI/PTO); `load`: the machine's own load ratio series. -/
def eval (k : Kind) (mechSide : Bool) (pout pin dts : List Rat) (fuel : List (Fuel.Kind × List Rat))
    (storedKJ : Rat) (load : List Rat) : Out :=
  let hours := Engine.runningHours pout dts
  let mass := if k.burnsFuel then fuelMass fuel dts else []
  let single := singleLoad load
  match k with
  | .mainEngine => { fig := { hoursMain := hours }, fuel := mass }
  | .genset => { fig := { hoursGenset := hours }, fuel := mass, loadRatio := single }
  | .coges => { fig := { hoursGenset := hours }, fuel := mass, loadRatio := single }
  | .fuelCell => { fig := { hoursFuelCell := hours }, fuel := mass }
  | .generator => { fig := { inputMechanical := dot pin dts / 1000, hoursGenset := hours } }
  | .ptiPto =>
    let motoring := dot (plusPart pin) dts / 1000       -- PTI: electrical power taken from the bus
    let generating := dot (minusPart pin) dts / 1000     -- PTO: (negative) electrical power fed into it
    if mechSide then
      { fig := { inputMechanical := motoring, consMechanical := generating, hoursPtiPto := hours } }
    else
      { fig := { consMechanical := motoring, inputMechanical := -generating, hoursPtiPto := hours } }
  | .storage => { fig := { stored := storedKJ / 1000 } }
  | .shorePower => { fig := { inputElectric := dot pin dts / 1000 } }
  | .otherLoad => { fig := { auxiliary := dot pout dts / 1000 } }
  | .propulsion => { fig := { propulsion := dot pout dts / 1000 } }

/-- Which running-hours class a kind counts in (at most one). -/
inductive HourClass where
  | main | genset | fuelCell | ptiPto
  deriving DecidableEq, Repr

def Kind.hourClass : Kind → Option HourClass
  | .mainEngine => some .main
  | .genset | .generator | .coges => some .genset
  | .fuelCell => some .fuelCell
  | .ptiPto => some .ptiPto
  | _ => none

def Figures.hours (f : Figures) : HourClass → Rat
  | .main => f.hoursMain
  | .genset => f.hoursGenset
  | .fuelCell => f.hoursFuelCell
  | .ptiPto => f.hoursPtiPto

end Feems.CompResult
