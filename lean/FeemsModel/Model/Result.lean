/-
`FEEMSResult` and its field-wise merge (`feems/types_for_feems.py:71-114`):
`sum_with_freeze_duration` (same period) and `sum_and_extend_duration` (consecutive periods).

The float fields that are simply added are kept in one list `ext` (in dataclass order; the
harness takes the field list from `dataclasses.fields(FEEMSResult)`), so a new extensive field
is covered without touching the model.  Detail tables are lists of row identifiers.
The species dictionary is merged over the union of keys (the code after the repair of D6;
`KV.addLeftKeysLegacy` is the merge as found).
-/
import FeemsModel.Model.Fuel

namespace Feems.Result
open Feems.Fuel

structure Result where
  duration : Option Rat := none
  ext : List Rat := []
  loadRatio : Option Rat := none
  emis : Option (KV.Rec Nat Rat) := none
  detail : Option (List Nat) := none
  fuel : Fuel.Rec Rat := []
  co2 : Ghg := {}
  deriving Repr

/-- `FEEMSResult()` with `n` extensive float fields. -/
def empty (n : Nat) : Result := { ext := List.replicate n 0 }

/-- The generic rule of `__merge`: `None` on one side gives the other side. -/
def optMerge {α : Type} (f : α → α → Except String α) : Option α → Option α → Except String (Option α)
  | none, y => .ok y
  | x, none => .ok x
  | some x, some y => (f x y).map some

def mergeDuration (freeze : Bool) : Option Rat → Option Rat → Except String (Option Rat) :=
  optMerge fun x y =>
    if freeze then (if x = y then .ok x else .error "reject:durations differ") else .ok (x + y)

/-- `load_ratio_genset`: the larger one in a same-period merge, the duration-weighted mean in a
consecutive-period merge (falling back to one operand when the other has no duration). -/
def mergeLoad (freeze : Bool) (da db : Option Rat) : Option Rat → Option Rat → Except String (Option Rat) :=
  optMerge fun x y =>
    if freeze then .ok (max x y) else
    match da, db with
    | none, _ => .ok y
    | _, none => .ok x
    | some d1, some d2 =>
      if d1 + d2 = 0 then .error "reject:zero total duration" else .ok ((x * d1 + y * d2) / (d1 + d2))

def addExt : List Rat → List Rat → List Rat
  | x :: xs, y :: ys => (x + y) :: addExt xs ys
  | _, _ => []

def merge (freeze : Bool) (a b : Result) : Except String Result := do
  let duration ← mergeDuration freeze a.duration b.duration
  let loadRatio ← mergeLoad freeze a.duration b.duration a.loadRatio b.loadRatio
  let emis ← optMerge (fun x y => .ok (KV.addSpec x y)) a.emis b.emis
  let detail ← optMerge (fun x y => .ok (x ++ y)) a.detail b.detail
  return { duration, ext := addExt a.ext b.ext, loadRatio, emis, detail,
           fuel := add a.fuel b.fuel, co2 := a.co2.add b.co2 }

/-- The species merge as found (D6): `{k: self[k] + other[k] for k in self}`;
`none` = `KeyError`. -/
def mergeEmisLegacy (a b : KV.Rec Nat Rat) : Option (KV.Rec Nat Rat) := KV.addLeftKeysLegacy a b

end Feems.Result

namespace Feems.Result

/-- Accumulation of component results into a node result and of node results into the system
result: a left fold of the same-period merge (`res = res.sum_with_freeze_duration(res_comp)`),
starting from an empty result. -/
def foldFrom (acc : Result) (cs : List Result) : Except String Result :=
  cs.foldlM (fun a c => merge true a c) acc

def accumulate (n : Nat) (cs : List Result) : Except String Result := foldFrom (empty n) cs

/-- System level: nodes (switchboards / shaft lines) first, then the nodes' results. -/
def accumulateNested (n : Nat) (nodes : List (List Result)) : Except String Result := do
  let rs ← nodes.mapM (accumulate n)
  accumulate n rs

end Feems.Result
