/-
Structural validation of configurations and inputs, as a decision procedure over the facts the
constructors and the balance calls look at (`system_model.py:103-172, 286-300, 525-603, 969-1066,
1129-1149`, `node.py:375-400`, `component_base.py:129-152`, `fuel.py:236-257`).
Only accept / reject is modelled (the error class is not part of any property).
-/
import FeemsModel.Model.Component

namespace Feems.Validate

/-- Power-type categories of a switchboard / shaft line. -/
inductive Cat | source | consumer | ptiPto | storage | transmission
  deriving DecidableEq, Repr

structure Comp where
  name : String
  node : Int               -- switchboard number or shaft-line id
  cat : Cat
  kindOK : Bool            -- the object is an instance of a class accepted for its role
  rated : Rat
  deriving Repr

/-- How a fuel is specified and which factors were supplied with it. -/
structure FuelSpec where
  byUser : Bool
  lhvGiven : Bool
  wttGiven : Bool
  ttwGiven : Bool
  deriving Repr

structure Config where
  electric : List Comp
  nBreakers : Nat
  mechanical : List Comp
  hybrid : Bool
  elecPti : List Nat        -- identities of the PTI/PTO objects on each side
  mechPti : List Nat
  monotoneMaps : List Bool  -- per efficiency curve: the sampled input-output map is strictly monotone
  fuels : List FuelSpec
  seriesLengths : List Nat  -- lengths of all load / status / sharing-mode / interval series
  deriving Repr

/-- `arange(-rated, rated, rated/100)` mapped through the forward formula is strictly monotone
(`component_base.py:137-152`). -/
def monotoneMap (η : Rat → Rat) (rated : Rat) : Bool :=
  let outs := (List.range 200).map fun k => Comp.knotOut rated k
  let ins := outs.map fun o => Comp.fwd η rated o
  let ds := List.zipWith (fun a b => b - a) ins ins.tail
  ds.all (· > 0) || ds.all (· < 0)

def nodes (cs : List Comp) : List Int := (cs.map (·.node)).eraseDups

def hasSupply (cs : List Comp) (n : Int) : Bool := cs.any fun c => c.node = n && (c.cat = .source || c.cat = .storage)

def namesUnique (cs : List Comp) : Bool :=
  (nodes cs).all fun n => [Cat.source, .consumer, .ptiPto, .storage, .transmission].all fun k =>
    let names := (cs.filter fun c => c.node = n && c.cat = k).map (·.name)
    names.eraseDups.length == names.length

def fuelOK (f : FuelSpec) : Bool :=
  if f.byUser then f.lhvGiven && f.wttGiven && f.ttwGiven else !f.lhvGiven && !f.wttGiven && !f.ttwGiven

/-- Lengths agree, a single value standing for a constant excepted. -/
def lengthsOK (ls : List Nat) : Bool := ((ls.filter (· ≠ 1)).eraseDups.length ≤ 1) && ls.all (· ≠ 0)

structure Checks where
  everySwitchboardSupplied : Bool
  positiveIds : Bool
  breakersPresent : Bool
  uniqueNames : Bool
  kindsOK : Bool
  samePti : Bool
  positiveRatings : Bool
  monotone : Bool
  fuels : Bool
  lengths : Bool
  deriving Repr, DecidableEq

def checks (c : Config) : Checks :=
  { everySwitchboardSupplied := (nodes c.electric).all (hasSupply c.electric),
    positiveIds := (nodes c.electric).all (· > 0),
    breakersPresent := (nodes c.electric).length ≤ 1 || c.nBreakers > 0,
    uniqueNames := namesUnique c.electric && namesUnique c.mechanical,
    kindsOK := (c.electric ++ c.mechanical).all (·.kindOK),
    samePti := !c.hybrid || (!c.elecPti.isEmpty && !c.mechPti.isEmpty && c.elecPti.length == c.mechPti.length
                 && c.elecPti.all (c.mechPti.contains ·)),
    positiveRatings := (c.electric ++ c.mechanical).all (·.rated > 0),
    monotone := c.monotoneMaps.all id,
    fuels := c.fuels.all fuelOK,
    lengths := lengthsOK c.seriesLengths }

def Checks.all (k : Checks) : Bool :=
  k.everySwitchboardSupplied && k.positiveIds && k.breakersPresent && k.uniqueNames && k.kindsOK && k.samePti
    && k.positiveRatings && k.monotone && k.fuels && k.lengths

/-- `true` = constructed and calculated; `false` = some constructor or call raises. -/
def accepted (c : Config) : Bool := (checks c).all

end Feems.Validate
