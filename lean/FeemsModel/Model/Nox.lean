/-
IMO Regulation 13 NOx limit as the code computes it (`component_mechanical.py:141-159`,
constants generated from `feems/constant.py`): the tabulated value up to the slow-speed limit,
`factor · n ^ exponent` above it.  The real power is not computable in `Rat`: the theorems
(`Proofs/C09.lean`) are stated over `ℝ` with `Real.rpow`; `limitFloat` is the `Float` twin used
only by the correspondence.
-/
import FeemsModel.Generated.NoxConstants
import FeemsModel.Model.Basic

namespace Feems.Nox
open Feems.Generated.Nox

def slowValue (tier : Nat) : Rat := ((slow.find? fun e => e.1 = tier).map (·.2)).getD 0
def mediumFactor (tier : Nat) : Rat := ((medium.find? fun e => e.1 = tier).map (·.2.1)).getD 0
def mediumExponent (tier : Nat) : Rat := ((medium.find? fun e => e.1 = tier).map (·.2.2)).getD 0

/-- Which branch `_setup_nox` takes for a rated speed. -/
def isMediumSpeed (n : Rat) : Bool := maxSlowRpm < n

def ratToFloat (r : Rat) : Float := Float.ofInt r.num / Float.ofNat r.den

/-- `factor * np.power(rated_speed, exponent)` or the slow-speed value, in double arithmetic. -/
def limitFloat (tier : Nat) (n : Rat) : Float :=
  if isMediumSpeed n then ratToFloat (mediumFactor tier) * Float.pow (ratToFloat n) (ratToFloat (mediumExponent tier))
  else ratToFloat (slowValue tier)

/-- NOx (or any species) mass in kg from a constant specific emission: `g/kWh · Σ P·dt / 3600 / 1000`. -/
def massKg (gPerKWh : Rat) (ps dts : List Rat) : Rat := gPerKWh * dot ps dts / 3600 / 1000

end Feems.Nox
