/-
Line-protocol driver: one JSON request per line on stdin, one JSON answer per line on stdout.
Request  {"id": n, "op": "<family>.<name>", …arguments…}
Answer   {"id": n, "out": …}  |  {"id": n, "reject": "<reason>"}  |  {"id": n, "error": "<driver problem>"}
`reject` means the *model* refuses the input (the counterpart of an exception in the code);
`error` means the request itself was malformed (a harness bug, exit status 2 on the Python side).
Imports the executable model and `Lean.Data.Json` only — no Mathlib.
-/
import Driver.Util
import Driver.FuelOps
import Driver.ResultOps
import Driver.StorageOps
import Driver.PmsOps
import Driver.BusOps
import Driver.ElectricOps
import Driver.ShaftOps
import Driver.CompOps
import Driver.EngineOps
import Driver.GhgOps
import Driver.NoxOps
import Driver.IntegrateOps
import Driver.HybridOps
import Driver.ProfileOps
import Driver.ValidateOps
import Driver.ExportOps
import Driver.ProtoOps
import Driver.CompResultOps
import Driver.PchipOps
open Lean Driver

def dispatch (op : String) (j : Json) : Except String Json :=
  match (op.splitOn ".").head! with
  | "fuel" => fuelOp op j
  | "result" => resultOp op j
  | "storage" => storageOp op j
  | "pms" => pmsOp op j
  | "bus" => busOp op j
  | "electric" => electricOp op j
  | "shaft" => shaftOp op j
  | "comp" => compOp op j
  | "engine" => engineOp op j
  | "hours" => hoursOp j
  | "ghg" => ghgOp op j
  | "nox" => noxOp op j
  | "integrate" => integrateOp op j
  | "hybrid" => hybridOp op j
  | "profile" => profileOp op j
  | "validate" => validateOp op j
  | "export" => exportOp op j
  | "proto" => protoOp op j
  | "compresult" => compResultOp op j
  | "pchip" => pchipOp op j
  | _ => .error s!"unknown op family in '{op}'"

def handle (line : String) : String :=
  match Json.parse line with
  | .error e => (obj [("error", Json.str s!"parse: {e}")]).compress
  | .ok j =>
    let id := fldD j "id" Json.null
    match fld j "op" >>= jStr with
    | .error e => (obj [("id", id), ("error", Json.str e)]).compress
    | .ok op =>
      match dispatch op j with
      | .ok out => (obj [("id", id), ("out", out)]).compress
      | .error e =>
        if e.startsWith "reject:" then (obj [("id", id), ("reject", Json.str (e.drop 7).toString)]).compress
        else if e.startsWith "need:" then
          match e.splitOn ":" with
          | [_, name, key] => (obj [("id", id), ("out", obj [("need", Json.arr #[Json.str name, Json.str key])])]).compress
          | _ => (obj [("id", id), ("error", Json.str e)]).compress
        else (obj [("id", id), ("error", Json.str e)]).compress

partial def loop (h : IO.FS.Stream) (out : IO.FS.Stream) : IO Unit := do
  let line ← h.getLine
  if line.isEmpty then return ()
  if line.trimAscii.isEmpty then loop h out else
  out.putStrLn (handle line)
  out.flush
  loop h out

def main : IO Unit := do
  let stdin ← IO.getStdin
  let stdout ← IO.getStdout
  loop stdin stdout
  stdout.flush
