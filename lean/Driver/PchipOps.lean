import Driver.Util
import FeemsModel.Model.Pchip
open Lean Feems Feems.Pchip

namespace Driver

def jPoints (j : Json) : Except String (List (Rat × Rat)) := do
  (← jArr j).mapM fun p => do
    match ← jArr p with
    | [a, b] => return (← jRat a, ← jRat b)
    | _ => throw "expected [x, y]"

def pchipOp (op : String) (j : Json) : Except String Json := do
  match op with
  | "pchip.curve" =>      -- a FEEMS curve (one point = constant; several = sorted + interpolated) at several abscissae
    let pts ← jPoints (← fld j "points"); let ts ← jRats (← fld j "at")
    return ratsJ (← ts.mapM fun t => curve pts t)
  | "pchip.derivs" =>     -- the slopes at the points, as `_find_derivatives` returns them (points given sorted)
    let pts ← jPoints (← fld j "points")
    let xs := pts.map (·.1); let ys := pts.map (·.2)
    if !acceptedB xs then throw "reject:abscissae not strictly increasing"
    return ratsJ ((List.range pts.length).map fun k => deriv pts.length (fun i => xs.getD i 0) (fun i => ys.getD i 0) k)
  | _ => throw s!"unknown op {op}"

end Driver
