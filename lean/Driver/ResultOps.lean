import Driver.Util
import Driver.FuelOps
import FeemsModel.Model.Result
open Lean Feems Feems.Fuel Feems.Result

namespace Driver

def jOpt {α} (f : Json → Except String α) (j : Json) : Except String (Option α) :=
  match j with
  | .null => .ok none
  | _ => do return some (← f j)

def optJ {α} (f : α → Json) : Option α → Json
  | none => Json.null
  | some x => f x

def jEmis (j : Json) : Except String (KV.Rec Nat Rat) := do
  (← jArr j).mapM fun e => do
    match (← jArr e) with
    | [k, v] => return (← jNat k, ← jRat v)
    | _ => throw "species entry must be [key, value]"

def emisJ (e : KV.Rec Nat Rat) : Json := Json.arr (e.map fun x => Json.arr #[natJ x.1, ratJ x.2]).toArray

def jGhg (j : Json) : Except String Ghg := do
  match (← jRats j) with
  | [a, b, c] => return ⟨a, b, c⟩
  | _ => throw "co2 must be [ttw, wtt, ttw_no_slip]"

def jResult (j : Json) : Except String Result := do
  return { duration := ← jOptRat (← fld j "duration"), ext := ← jRats (← fld j "ext"),
           loadRatio := ← jOptRat (← fld j "load"), emis := ← jOpt jEmis (← fld j "emis"),
           detail := ← jOpt jNats (← fld j "detail"), fuel := ← jRec (← fld j "fuel"),
           co2 := ← jGhg (← fld j "co2") }

def resultJ (r : Result) : Json :=
  obj [("duration", optRatJ r.duration), ("ext", ratsJ r.ext), ("load", optRatJ r.loadRatio),
       ("emis", optJ emisJ r.emis), ("detail", optJ natsJ r.detail), ("fuel", recJ r.fuel),
       ("co2", ratsJ [r.co2.ttw, r.co2.wtt, r.co2.ttwNoSlip])]

def resultOp (op : String) (j : Json) : Except String Json := do
  match op with
  | "result.merge" =>
    let a ← jResult (← fld j "a"); let b ← jResult (← fld j "b")
    let f ← jBool (← fld j "freeze")
    return resultJ (← merge f a b)
  | "result.accumulate" =>
    let n ← jNat (← fld j "n_ext")
    let nodes ← (← jArr (← fld j "nodes")).mapM fun nd => do (← jArr nd).mapM jResult
    return resultJ (← accumulateNested n nodes)
  | "result.merge_legacy_species" =>
    let a ← jEmis (← fld j "a"); let b ← jEmis (← fld j "b")
    return optJ emisJ (mergeEmisLegacy a b)
  | _ => throw s!"unknown op {op}"

end Driver
