import Driver.Util
import FeemsModel.Model.Fuel
open Lean Feems Feems.Fuel

namespace Driver

def jRec (j : Json) : Except String (Rec Rat) := do
  (← jArr j).mapM fun e => do
    match (← jArr e) with
    | [t, o, s, m] => return (⟨← jNat t, ← jNat o, ← jNat s⟩, ← jRat m)
    | _ => throw "fuel entry must be [type, origin, spec, mass]"

def recJ (r : Rec Rat) : Json :=
  Json.arr (r.map fun e => Json.arr #[natJ e.1.type, natJ e.1.origin, natJ e.1.spec, ratJ e.2]).toArray

def jTtw (j : Json) : Except String Ttw := do
  match (← jRats j) with
  | [a, b, c, d] => return ⟨a, b, c, d⟩
  | _ => throw "ttw row must be [co2, ch4, n2o, slip]"

def ghgJ (g : Ghg) : Json :=
  obj [("ttw", ratJ g.ttw), ("wtt", ratJ g.wtt), ("ttw_no_slip", ratJ g.ttwNoSlip), ("wtw", ratJ g.wtw)]

/-- fuels with resolved factors: [[co2,ch4,n2o,slip], lhv, wttPerMJ, mass] -/
def jFactorMass (j : Json) : Except String (Factors × Rat) := do
  match (← jArr j) with
  | [row, lhv, wtt, m] => return (⟨← jTtw row, ← jRat lhv, ← jRat wtt⟩, ← jRat m)
  | _ => throw "expected [row, lhv, wtt, mass]"

def fuelOp (op : String) (j : Json) : Except String Json := do
  match op with
  | "fuel.add" =>
    let a ← jRec (← fld j "a"); let b ← jRec (← fld j "b")
    return recJ (add a b)
  | "fuel.scale" =>
    let a ← jRec (← fld j "a"); let c ← jRat (← fld j "c")
    return recJ (scale a c)
  | "fuel.total" =>
    let a ← jRec (← fld j "a")
    return ratJ (total a)
  | "fuel.fractions" =>
    let a ← jRec (← fld j "a")
    return recJ (fractions a)
  | "fuel.ttw" =>
    return ratJ (← jTtw (← fld j "row")).factor
  | "fuel.emissions" =>
    let fs ← (← jArr (← fld j "fuels")).mapM jFactorMass
    return ghgJ (totalEmissions fs)
  | "fuel.mixfactor" =>
    let fs ← (← jArr (← fld j "fuels")).mapM jFactorMass
    return ghgJ (mixFactor fs)
  | _ => throw s!"unknown op {op}"

end Driver
