import Driver.Util
import Driver.BusOps
import FeemsModel.Model.ElectricBalance
import FeemsModel.Model.Bus
open Lean Feems Feems.Electric

namespace Driver

def jSrc (j : Json) : Except String Src := do
  match (← jArr j) with
  | [r, s, m] => return ⟨← jRat r, ← jBool s, ← jRat m⟩
  | _ => throw "source must be [rated, status, share]"

def jBal (j : Json) : Except String Bal := do
  match (← jArr j) with
  | [r, s, m, g] => return ⟨← jRat r, ← jBool s, ← jRat m, ← jRat g⟩
  | _ => throw "balancer must be [rated, status, mode, given]"

def jSwb (j : Json) : Except String Swb := do
  return ⟨← jNat (← fld j "id"), ← (← jArr (← fld j "sources")).mapM jSrc,
          ← (← jArr (← fld j "balancers")).mapM jBal, ← jRats (← fld j "consumers")⟩

def electricOp (op : String) (j : Json) : Except String Json := do
  match op with
  | "electric.step" =>
    -- one time step: the plant at step t, the breaker ends, the whole status matrix, n and t
    let plant ← (← jArr (← fld j "plant")).mapM jSwb
    let ends ← jPairs (← fld j "ends")
    let status ← (← jArr (← fld j "status")).mapM jBools
    let n ← jNat (← fld j "n"); let t ← jNat (← fld j "t")
    let brs := Bus.breakersAt ends status n t
    let lab := Bus.group brs
    let out := balance lab plant
    return Json.arr (out.map fun (id, r) =>
      match r with
      | some (so, bi) => obj [("id", natJ id), ("sources", ratsJ so), ("balancers", ratsJ bi),
          ("bus", natJ (lab id))]
      | none => obj [("id", natJ id), ("undefined", Json.bool true), ("bus", natJ (lab id))]).toArray
  | _ => throw s!"unknown op {op}"

end Driver
