import Driver.Util
import Driver.ResultOps
import Driver.StorageOps
import FeemsModel.Model.Export
open Lean Feems Feems.Export

namespace Driver

def exportOp (op : String) (j : Json) : Except String Json := do
  match op with
  | "export.result" =>
    let r ← jResult (← fld j "result")
    let names ← (← jArr (← fld j "float_names")).mapM jStr
    let m := exportResult names r
    return obj [("duration", ratJ m.duration), ("fuels", recJ m.fuels),
                ("scalars", obj (m.scalars.map fun nv => (nv.1, ratJ nv.2))),
                ("co2", obj [("well_to_tank", ratJ m.co2.wellToTank), ("tank_to_wake", ratJ m.co2.tankToWake),
                             ("well_to_wake", ratJ m.co2.wellToWake), ("tank_to_wake_without_slip", ratJ m.co2.tankToWakeNoSlip),
                             ("well_to_wake_without_slip", ratJ m.co2.wellToWakeNoSlip)]),
                ("nox", ratJ m.nox), ("detail", natsJ m.detail),
                ("generated_float_fields", Json.arr (Generated.ResultFields.floatFields.map Json.str).toArray)]
  | "export.timebase" =>
    let n ← jNat (← fld j "n")
    match fldD j "epochs" Json.null with
    | .null => return ratsJ (timeBase n (← jTimeBase (← fld j "dt")))
    | e => return ratsJ (timeBaseFromInput n (← jRats e))
  | _ => throw s!"unknown op {op}"

end Driver
