import Driver.Util
import FeemsModel.Model.Nox
open Lean Feems Feems.Nox

namespace Driver

def noxOp (op : String) (j : Json) : Except String Json := do
  match op with
  | "nox.limit" =>
    let tier ← jNat (← fld j "tier"); let n ← jRat (← fld j "speed")
    -- the double as its bit pattern (no decimal round trip)
    return obj [("bits", natJ (limitFloat tier n).toBits.toNat), ("medium", Json.bool (isMediumSpeed n))]
  | "nox.mass" =>
    return ratJ (massKg (← jRat (← fld j "g")) (← jRats (← fld j "p")) (← jRats (← fld j "dt")))
  | "nox.constants" =>
    return obj [("slow", ratsJ [slowValue 1, slowValue 2, slowValue 3]),
                ("factor", ratsJ [mediumFactor 1, mediumFactor 2, mediumFactor 3]),
                ("exponent", ratsJ [mediumExponent 1, mediumExponent 2, mediumExponent 3])]
  | _ => throw s!"unknown op {op}"

end Driver
