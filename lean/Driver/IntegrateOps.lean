import Driver.Util
import Driver.StorageOps
import FeemsModel.Model.Integrate
open Lean Feems Feems.Integrate

namespace Driver

def integrateOp (op : String) (j : Json) : Except String Json := do
  match op with
  | "integrate.sum" =>
    let rate ← jRats (← fld j "rate"); let tb ← jTimeBase (← fld j "dt")
    return obj [("value", optRatJ (integrateC rate tb)), ("duration", ratJ (duration tb))]
  | "integrate.acc" =>
    let rate ← jRats (← fld j "rate"); let dts ← jRats (← fld j "dt")
    return ratsJ (accumulate rate dts)
  | _ => throw s!"unknown op {op}"

end Driver
