import Driver.Util
import FeemsModel.Model.ShaftBalance
open Lean Feems Feems.Shaft

namespace Driver

def jLine (j : Json) : Except String Line := do
  let engines ← (← jArr (← fld j "engines")).mapM fun e => do
    match (← jArr e) with
    | [r, s] => return (⟨← jRat r, ← jBool s⟩ : Eng)
    | _ => throw "engine must be [rated, status]"
  let pti ← match fldD j "pti" Json.null with
    | .null => pure none
    | p => do
      match (← jArr p) with
      | [o, f] => pure (some (⟨← jRat o, ← jBool f⟩ : Pti))
      | _ => throw "pti must be [shaft_out, full]"
  return ⟨← jNat (← fld j "id"), engines, ← jRats (← fld j "loads"), pti⟩

def shaftOp (op : String) (j : Json) : Except String Json := do
  match op with
  | "shaft.step" =>
    let lines ← (← jArr (← fld j "lines")).mapM jLine
    return Json.arr ((balance lines).map fun r =>
      obj [("id", natJ r.id), ("engines", ratsJ r.engineOut), ("status", boolsJ r.engineStatus),
           ("pti", ratJ r.ptiOut), ("frac", ratJ r.frac)]).toArray
  | _ => throw s!"unknown op {op}"

end Driver
