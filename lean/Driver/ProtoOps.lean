import Lean.Data.Json
import Lean.Elab.Deriving.FromToJson
import Driver.Util
import FeemsModel.Model.Proto
open Lean Feems Feems.Proto

namespace Driver

instance : ToJson Rat := ⟨ratJ⟩
instance : FromJson Rat := ⟨jRat⟩

deriving instance ToJson, FromJson for Feems.Proto.Curve
deriving instance ToJson, FromJson for Feems.Proto.Fuel
deriving instance ToJson, FromJson for Feems.Proto.Engine
deriving instance ToJson, FromJson for Feems.Proto.Machine
deriving instance ToJson, FromJson for Feems.Proto.Conv
deriving instance ToJson, FromJson for Feems.Proto.Gear
deriving instance ToJson, FromJson for Feems.Proto.Battery
deriving instance ToJson, FromJson for Feems.Proto.Supercap
deriving instance ToJson, FromJson for Feems.Proto.FuelCell
deriving instance ToJson, FromJson for Feems.Proto.Cogas
deriving instance ToJson, FromJson for Feems.Proto.Stage
deriving instance ToJson, FromJson for Feems.Proto.EComp
deriving instance ToJson, FromJson for Feems.Proto.MComp
deriving instance ToJson, FromJson for Feems.Proto.Sys
deriving instance ToJson, FromJson for Feems.Proto.Sub
deriving instance ToJson, FromJson for Feems.Proto.Msg

def protoOp (op : String) (j : Json) : Except String Json := do
  match op with
  | "proto.to_proto" =>
    let s : Sys ← fromJson? (← fld j "sys")
    match toProto s with
    | some m => return toJson m
    | none => throw "reject:a PTI/PTO named on a shaft line is not on the electric side"
  | "proto.to_feems" =>
    let m : Msg ← fromJson? (← fld j "msg")
    match toFeems m with
    | .ok s => return toJson s
    | .error e => throw ("reject:" ++ e)
  | "proto.norm" =>
    let s : Sys ← fromJson? (← fld j "sys")
    return toJson s.norm
  | "proto.chain" =>
    let ids : List Nat ← fromJson? (← fld j "ids")
    return toJson ((chainOf ids).map fun (a, b) => [a, b])
  | "proto.echo" =>
    let s : Sys ← fromJson? (← fld j "sys")
    return toJson s
  | _ => throw s!"unknown op {op}"

end Driver
