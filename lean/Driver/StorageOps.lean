import Driver.Util
import FeemsModel.Model.Storage
open Lean Feems Feems.Integrate Feems.Storage

namespace Driver

def jTimeBase (j : Json) : Except String TimeBase :=
  match j with
  | .arr _ => do return .series (← jRats j)
  | _ => do return .scalar (← jRat j)

/-- finite table as a function (oracle values supplied by the harness); identity off the table -/
def tableFn (keys vals : List Rat) : Rat → Rat := fun x =>
  match (keys.zip vals).find? (fun kv => kv.1 = x) with
  | some kv => kv.2
  | none => x

def storageOp (op : String) (j : Json) : Except String Json := do
  match op with
  | "storage.eval" =>
    let s : Store := { ηc := ← jRat (← fld j "eta_c"), ηd := ← jRat (← fld j "eta_d"),
                       soc0 := ← jRat (← fld j "soc0"), capacity := ← jRat (← fld j "capacity"),
                       supercap := ← jBool (← fld j "supercap") }
    let ps ← jRats (← fld j "p")
    let convVals ← jRats (← fld j "conv")
    let conv := tableFn ps convVals
    let tb ← jTimeBase (← fld j "dt")
    let acc := match tb with
      | .series dts => if dts.length = ps.length || ps.length = 1 then some (energyAccC s conv ps dts, socAccC s conv ps dts) else none
      | .scalar _ => none
    return obj [("energy", optRatJ (energyC s conv ps tb)), ("soc", optRatJ (socC s conv ps tb)),
                ("energy_acc", match acc with | some a => ratsJ a.1 | none => Json.null),
                ("soc_acc", match acc with | some a => ratsJ a.2 | none => Json.null),
                ("stored_power", ratsJ (storedPower s conv ps))]
  | "storage.terminal" =>
    return ratJ (terminal (← jRat (← fld j "eta_c")) (← jRat (← fld j "eta_d")) (← jRat (← fld j "q")))
  | "storage.cell" =>
    return ratJ (cell (← jRat (← fld j "eta_c")) (← jRat (← fld j "eta_d")) (← jRat (← fld j "p")))
  | _ => throw s!"unknown op {op}"

end Driver
