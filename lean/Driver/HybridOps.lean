import Driver.Util
import Driver.CompOps
import FeemsModel.Model.Hybrid
open Lean Feems Feems.Hybrid

namespace Driver

def hybridOp (op : String) (j : Json) : Except String Json := do
  match op with
  | "hybrid.step" =>
    -- f and g are oracle tables (values of the real machine at the powers the model asks for)
    let ft ← jTable (← fld j "f"); let gt ← jTable (← fld j "g")
    let x0 ← jRat (← fld j "x0"); let L ← jRat (← fld j "load")
    let full ← jBool (← fld j "full"); let anyFull ← jBool (← fld j "any_full")
    -- pull protocol: g x0, then f p, then g (f p)
    match gt.get? x0 with
    | none => return needJ "g" x0
    | some s1 =>
      let p := if full then L else s1
      match ft.get? p with
      | none => return needJ "f" p
      | some e2 =>
        if anyFull && (gt.get? e2).isNone then return needJ "g" e2
        let r := step ft.fn gt.fn x0 L full anyFull
        return obj [("elec_in", ratJ r.elecIn), ("shaft_out", ratJ r.shaftOut), ("elec_used", ratJ r.elecUsed),
                    ("shaft_used", ratJ r.shaftUsed)]
  | "hybrid.same_machines" =>
    return Json.bool (sameMachines (← jNats (← fld j "elec")) (← jNats (← fld j "mech")))
  | _ => throw s!"unknown op {op}"

end Driver
