import Driver.Util
import Driver.CompOps
import FeemsModel.Model.Hybrid
open Lean Feems Feems.Hybrid

namespace Driver

def hybridOp (op : String) (j : Json) : Except String Json := do
  match op with
  | "hybrid.step" =>
    -- f and g are oracle tables (values of the real machine at the powers the model asks for)
    let ft ← jTable (← fld j "f"); let gt ← jTable (← fld j "g")
    let x0 ← jRat (← fld j "x0"); let L ← jRat (← fld j "load")
    let full ← jBool (← fld j "full"); let anyFull ← jBool (← fld j "any_full")
    let rb ← jBool (← fld j "rebalance")
    -- pull protocol: g x0, then f p, then g (f p), then f of the rebalanced shaft power
    match gt.get? x0 with
    | none => return needJ "g" x0
    | some s1 =>
      let p := if full then L else s1
      match ft.get? p with
      | none => return needJ "f" p
      | some e2 =>
        if anyFull then
          match gt.get? e2 with
          | none => return needJ "g" e2
          | some s2 =>
            let p' := if full then L else s2
            if rb && (ft.get? p').isNone then return needJ "f" p'
        let r := step ft.fn gt.fn x0 L full anyFull rb
        return obj [("elec_in", ratJ r.elecIn), ("shaft_out", ratJ r.shaftOut), ("elec_used", ratJ r.elecUsed),
                    ("shaft_used", ratJ r.shaftUsed)]
  | "hybrid.step_balancing" =>
    let ft ← jTable (← fld j "f"); let gt ← jTable (← fld j "g")
    let xb ← jRat (← fld j "xb")
    match gt.get? xb with
    | none => return needJ "g" xb
    | some p =>
      if (ft.get? p).isNone then return needJ "f" p
      -- the final state depends on the share of the last electric pass only
      let r := stepBalancing ft.fn gt.fn xb xb true
      return obj [("elec_in", ratJ r.elecIn), ("shaft_out", ratJ r.shaftOut), ("elec_used", ratJ r.elecUsed),
                  ("shaft_used", ratJ r.shaftUsed)]
  | "hybrid.same_machines" =>
    return Json.bool (sameMachines (← jNats (← fld j "elec")) (← jNats (← fld j "mech")))
  | _ => throw s!"unknown op {op}"

end Driver
