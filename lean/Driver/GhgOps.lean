import Driver.Util
import Driver.FuelOps
import FeemsModel.Model.Ghg
open Lean Feems Feems.Fuel Feems.Ghg

namespace Driver

def jUser (j : Json) : Except String (Option UserFactors) :=
  match j with
  | .null => .ok none
  | _ => do
    let rows ← (← jArr (← fld j "rows")).mapM fun r => do
      match (← jArr r) with
      | [a, b, c, d, cls] =>
        let c' ← match cls with
          | .null => pure none
          | x => do pure (some (← jNat x))
        return (c', (⟨← jRat a, ← jRat b, ← jRat c, ← jRat d⟩ : Ttw))
      | _ => throw "user row must be [co2, ch4, n2o, slip, class|null]"
    return some ⟨← jRat (← fld j "lhv"), ← jRat (← fld j "wtt"), rows⟩

def ghgOp (op : String) (j : Json) : Except String Json := do
  match op with
  | "ghg.total" =>
    let r ← jRec (← fld j "fuels")
    let cls ← jNat (← fld j "cls")
    let user ← jUser (fldD j "user" Json.null)
    let series ← jBool (fldD j "series" (Json.bool false))
    match recordEmissions cls r user series with
    | some g => return ghgJ g
    | none => throw "reject:factor lookup fails"
  | "ghg.factor" =>
    let k ← match (← jNats (← fld j "kind")) with
      | [t, o, s] => pure (⟨t, o, s⟩ : Kind)
      | _ => throw "kind must be [type, origin, spec]"
    let cls ← jNat (← fld j "cls")
    let user ← jUser (fldD j "user" Json.null)
    match resolve cls k user with
    | some f => return obj [("ttw", ratJ f.row.factor), ("wtt", ratJ f.ghg.wtt), ("ttw_no_slip", ratJ f.row.co2),
                            ("lhv", ratJ f.lhv), ("slip", ratJ f.row.slip)]
    | none => throw "reject:factor lookup fails"
  | _ => throw s!"unknown op {op}"

end Driver
