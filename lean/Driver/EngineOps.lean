import Driver.Util
import Driver.CompOps
import FeemsModel.Model.Engine
open Lean Feems Feems.Comp Feems.Engine

namespace Driver

/-- named oracle tables -/
def jTables (j : Json) : Except String (List (String × Table)) := do
  match j with
  | .obj kvs => kvs.toList.mapM fun (k, v) => do return (k, ← jTable v)
  | _ => throw "curves must be an object"

def tbl (ts : List (String × Table)) (name : String) : Table :=
  ((ts.find? (fun kv => kv.1 == name)).map (·.2)).getD []

/-- make sure the model's key is in the oracle table; otherwise ask for it -/
def want (ts : List (String × Table)) (name : String) (key : Rat) : Except String Unit :=
  if ((tbl ts name).get? key).isSome then .ok () else .error s!"need:{name}:{showRat key}"

def engineOp (op : String) (j : Json) : Except String Json := do
  let ts ← jTables (fldD j "curves" (Json.mkObj []))
  let P ← jRat (← fld j "p")
  match op with
  | "engine.engine" =>
    -- engine (optionally dual fuel, optionally behind a generator or a gearbox), species curves
    let rated ← jRat (← fld j "rated")
    let mut Pe := P
    let mut genLoad : Json := Json.null
    match fldD j "generator_rated" Json.null with
    | .null => pure ()
    | g => do
      let rg ← jRat g
      if 0 ≤ P then want ts "eta_gen" (load rg P) else want ts "inv_gen" P
      Pe := gensetEnginePower (tbl ts "eta_gen").fn (tbl ts "inv_gen").fn rg P
      genLoad := ratJ (load rg P)
    match fldD j "gearbox" Json.null with
    | .null => pure ()
    | .bool true => do
      let rgb ← match fldD j "gearbox_rated" Json.null with
        | .null => pure rated
        | g => jRat g
      want ts "eta_gb" (load rgb P)
      Pe := gearedEnginePower (tbl ts "eta_gb").fn rgb P
    | _ => pure ()
    want ts "bsfc" (load rated Pe)
    let fuel := engineFuel (tbl ts "bsfc").fn rated Pe
    let mut out := [("engine_power", ratJ Pe), ("load", ratJ (load rated Pe)), ("fuel", ratJ fuel),
                    ("generator_load", genLoad)]
    if (fldD j "dual" (Json.bool false)) == Json.bool true then
      want ts "bpsfc" (load rated Pe)
      out := out ++ [("pilot", ratJ (pilotFuel (tbl ts "bpsfc").fn rated Pe))]
    let species ← (← jArr (fldD j "species" (Json.arr #[]))).mapM jStr
    let mut sp : List (String × Json) := []
    for s in species do
      want ts s (load rated Pe)
      sp := sp ++ [(s, ratJ (speciesRate (tbl ts s).fn rated Pe))]
    return obj (out ++ [("species", obj sp)])
  | "engine.modelled" =>
    -- the same run point with every curve computed by the model from its points (`Pchip.curve`): no oracle
    let rated ← jRat (← fld j "rated")
    let ptsOf (name : String) : Except String (List (Rat × Rat)) := do
      let pj ← fld (← fld j "points") name
      let pts ← (← jArr pj).mapM fun p => do
        match ← jRats p with
        | [a, b] => pure (a, b)
        | _ => throw "expected [load, value]"
      match Feems.Pchip.curve pts 0 with
      | .error e => throw e
      | .ok _ => pure pts
    let mut Pe := P
    match fldD j "generator_rated" Json.null with
    | .null => pure ()
    | g => do
      let rg ← jRat g
      let η := etaOfPoints (← ptsOf "eta_gen")
      Pe := gensetEnginePower η (invTable η rg) rg P
    match fldD j "gearbox_rated" Json.null with
    | .null => pure ()
    | g => do
      let rgb ← jRat g
      Pe := gearedEnginePower (etaOfPoints (← ptsOf "eta_gb")) rgb P
    let fuel := engineFuel (etaOfPoints (← ptsOf "bsfc")) rated Pe
    let mut out := [("engine_power", ratJ Pe), ("load", ratJ (load rated Pe)), ("fuel", ratJ fuel)]
    if (fldD j "dual" (Json.bool false)) == Json.bool true then
      out := out ++ [("pilot", ratJ (pilotFuel (etaOfPoints (← ptsOf "bpsfc")) rated Pe))]
    let species ← (← jArr (fldD j "species" (Json.arr #[]))).mapM jStr
    let mut sp : List (String × Json) := []
    for s in species do
      sp := sp ++ [(s, ratJ (speciesRate (etaOfPoints (← ptsOf s)) rated Pe))]
    return obj (out ++ [("species", obj sp)])
  | "engine.fuel_cell_system" =>
    let rc ← jRat (← fld j "rated_conv"); let rcell ← jRat (← fld j "rated_cell")
    let lhv ← jRat (← fld j "lhv"); let N ← jNat (← fld j "modules")
    if 0 ≤ P then want ts "eta_conv" (load rc P) else want ts "inv_conv" P
    let pc := inFromOut (tbl ts "eta_conv").fn (tbl ts "inv_conv").fn rc P
    let pm := pc / N
    if 0 ≤ pm then want ts "eta_cell" (load rcell pm) else want ts "inv_cell" pm
    let f := fuelCellSystemFuel (tbl ts "eta_conv").fn (tbl ts "inv_conv").fn (tbl ts "eta_cell").fn (tbl ts "inv_cell").fn rc rcell lhv N P
    return obj [("fuel", ratJ f), ("cell_power_per_module", ratJ pm), ("load", ratJ (load rcell pm))]
  | "engine.cogas" =>
    let rated ← jRat (← fld j "rated"); let lhv ← jRat (← fld j "lhv")
    let mut Pc := P
    match fldD j "generator_rated" Json.null with
    | .null => pure ()
    | g => do
      let rg ← jRat g
      if 0 ≤ P then want ts "eta_gen" (load rg P) else want ts "inv_gen" P
      Pc := inFromOut (tbl ts "eta_gen").fn (tbl ts "inv_gen").fn rg P
    want ts "eta" (load rated Pc)
    let hasSplit := (fldD j "split" (Json.bool false)) == Json.bool true
    -- the share at this load from the two GIVEN power curves (oracles "gt", "st": interpolants of the case's own points);
    -- "ratio" (the share of the points) is used only where neither turbine delivers power
    if hasSplit then
      want ts "gt" (Pc / rated)
      want ts "st" (Pc / rated)
      want ts "ratio" (Pc / rated)
    let r := cogas (tbl ts "eta").fn (shareOf (tbl ts "gt").fn (tbl ts "st").fn (tbl ts "ratio").fn) rated lhv Pc
    let species ← (← jArr (fldD j "species" (Json.arr #[]))).mapM jStr
    let mut sp : List (String × Json) := []
    for s in species do
      want ts s (load rated Pc)
      sp := sp ++ [(s, ratJ (speciesRate (tbl ts s).fn rated Pc))]
    return obj [("cogas_power", ratJ Pc), ("fuel", ratJ r.fuel), ("eff", ratJ r.eff),
                ("gas", if hasSplit then ratJ r.gas else Json.null), ("steam", if hasSplit then ratJ r.steam else Json.null),
                ("species", obj sp)]
  | _ => throw s!"unknown op {op}"

def hoursOp (j : Json) : Except String Json := do
  return ratJ (runningHours (← jRats (← fld j "p")) (← jRats (← fld j "dt")))

end Driver
