/- JSON helpers for the line-protocol driver.  Rationals travel as strings "num/den"
(or "num"), never as JSON numbers, so no decimal round trip is involved. -/
import Lean.Data.Json
import FeemsModel.Model.Basic
open Lean

namespace Driver

def parseRat (s : String) : Except String Rat :=
  match s.splitOn "/" with
  | [n] => match n.toInt? with
    | some i => .ok (i : Rat)
    | none => .error s!"bad rational '{s}'"
  | [n, d] => match n.toInt?, d.toNat? with
    | some i, some k => if k = 0 then .error s!"zero denominator '{s}'" else .ok (mkRat i k)
    | _, _ => .error s!"bad rational '{s}'"
  | _ => .error s!"bad rational '{s}'"

def showRat (r : Rat) : String :=
  if r.den = 1 then toString r.num else s!"{r.num}/{r.den}"

def ratJ (r : Rat) : Json := Json.str (showRat r)
def ratsJ (rs : List Rat) : Json := Json.arr (rs.map ratJ).toArray
def natJ (n : Nat) : Json := Json.num (JsonNumber.fromNat n)
def natsJ (ns : List Nat) : Json := Json.arr (ns.map natJ).toArray
def boolsJ (bs : List Bool) : Json := Json.arr (bs.map Json.bool).toArray
def optRatJ : Option Rat → Json
  | some r => ratJ r
  | none => Json.null

def jRat (j : Json) : Except String Rat :=
  match j with
  | .str s => parseRat s
  | .num n => if n.exponent = 0 then .ok (n.mantissa : Rat) else .error "rational must be a string or an integer"
  | .bool b => .ok (if b then 1 else 0)
  | _ => .error "expected rational"

def jArr (j : Json) : Except String (List Json) :=
  match j with
  | .arr a => .ok a.toList
  | _ => .error "expected array"

def jRats (j : Json) : Except String (List Rat) := do (← jArr j).mapM jRat
def jNat (j : Json) : Except String Nat :=
  match j with
  | .num n => if n.exponent = 0 && n.mantissa ≥ 0 then .ok n.mantissa.toNat else .error "expected nat"
  | _ => .error "expected nat"
def jInt (j : Json) : Except String Int :=
  match j with
  | .num n => if n.exponent = 0 then .ok n.mantissa else .error "expected int"
  | _ => .error "expected int"
def jNats (j : Json) : Except String (List Nat) := do (← jArr j).mapM jNat
def jBool (j : Json) : Except String Bool :=
  match j with
  | .bool b => .ok b
  | .num n => .ok (n.mantissa != 0)
  | _ => .error "expected bool"
def jBools (j : Json) : Except String (List Bool) := do (← jArr j).mapM jBool
def jStr (j : Json) : Except String String :=
  match j with
  | .str s => .ok s
  | _ => .error "expected string"
def jOptRat (j : Json) : Except String (Option Rat) :=
  match j with
  | .null => .ok none
  | _ => do return some (← jRat j)

def fld (j : Json) (k : String) : Except String Json :=
  match j.getObjVal? k with
  | .ok v => .ok v
  | .error _ => .error s!"missing field '{k}'"

def fldD (j : Json) (k : String) (d : Json) : Json :=
  match j.getObjVal? k with
  | .ok v => v
  | .error _ => d

def obj (kvs : List (String × Json)) : Json := Json.mkObj kvs

end Driver
