import Driver.Util
import FeemsModel.Model.Bus
open Lean Feems Feems.Bus

namespace Driver

def jPairs (j : Json) : Except String (List (Nat × Nat)) := do
  (← jArr j).mapM fun e => do
    match (← jNats e) with
    | [a, b] => return (a, b)
    | _ => throw "expected [a, b]"

def busOp (op : String) (j : Json) : Except String Json := do
  match op with
  | "bus.config" =>
    let swbs ← jNats (← fld j "swbs")
    let ends ← jPairs (← fld j "ends")
    let status ← (← jArr (← fld j "status")).mapM jBools
    let n ← jNat (← fld j "n")
    let idx := changeIdx status n
    let periods := idx.map fun t =>
      let brs := breakersAt ends status n t
      let lab := group brs
      obj [("start", natJ t),
           ("map", Json.arr ((busMap swbs brs).map fun p => Json.arr #[natJ p.1, natJ p.2]).toArray),
           ("no_bus", natJ (noBus swbs lab))]
    return obj [("change_idx", natsJ idx), ("periods", Json.arr periods.toArray),
                ("period_start", natsJ ((List.range n).map (periodStart status n)))]
  | "bus.legacy" =>
    let swbs ← jNats (← fld j "swbs")
    let ends ← jPairs (← fld j "ends")
    let closed ← jBools (← fld j "closed")
    let brs := List.zipWith (fun e c => (⟨e.1, e.2, c⟩ : Breaker)) ends closed
    match groupLegacy swbs brs with
    | none => return Json.null
    | some r => return obj [("labels", natsJ (swbs.map r.1)), ("no_bus", natJ r.2)]
  | "bus.set_status" =>
    let cur ← (← jArr (← fld j "cur")).mapM jBools
    let ups ← (← jArr (← fld j "updates")).mapM fun e => do
      return ((← jNat (← fld e "number")), (← jBools (← fld e "row")))
    match setStatus cur ups with
    | none => return Json.null
    | some st => return Json.arr (st.map boolsJ).toArray
  | _ => throw s!"unknown op {op}"

end Driver
