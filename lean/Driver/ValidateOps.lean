import Driver.Util
import Driver.CompOps
import FeemsModel.Model.Validate
import FeemsModel.Model.History
open Lean Feems Feems.Validate

namespace Driver

def jCat (j : Json) : Except String Cat := do
  match (← jStr j) with
  | "source" => pure .source
  | "consumer" => pure .consumer
  | "pti_pto" => pure .ptiPto
  | "storage" => pure .storage
  | "transmission" => pure .transmission
  | c => throw s!"unknown category {c}"

def jVComp (j : Json) : Except String Validate.Comp := do
  return ⟨← jStr (← fld j "name"), ← jInt (← fld j "node"), ← jCat (← fld j "cat"), ← jBool (← fld j "kind_ok"), ← jRat (← fld j "rated")⟩

def jFuelSpec (j : Json) : Except String FuelSpec := do
  match (← jBools j) with
  | [a, b, c, d] => return ⟨a, b, c, d⟩
  | _ => throw "fuel spec must be [by_user, lhv, wtt, ttw]"

def validateOp (op : String) (j : Json) : Except String Json := do
  match op with
  | "validate.accepted" =>
    let c : Config := {
      electric := ← (← jArr (← fld j "electric")).mapM jVComp, nBreakers := ← jNat (← fld j "breakers"),
      mechanical := ← (← jArr (← fld j "mechanical")).mapM jVComp, hybrid := ← jBool (← fld j "hybrid"),
      elecPti := ← jNats (← fld j "elec_pti"), mechPti := ← jNats (← fld j "mech_pti"),
      monotoneMaps := ← jBools (← fld j "monotone"), fuels := ← (← jArr (← fld j "fuels")).mapM jFuelSpec,
      seriesLengths := ← jNats (← fld j "lengths") }
    let k := checks c
    return obj [("accepted", Json.bool (accepted c)),
                ("checks", obj [("supplied", Json.bool k.everySwitchboardSupplied), ("ids", Json.bool k.positiveIds),
                  ("breakers", Json.bool k.breakersPresent), ("names", Json.bool k.uniqueNames), ("kinds", Json.bool k.kindsOK),
                  ("same_pti", Json.bool k.samePti), ("ratings", Json.bool k.positiveRatings), ("monotone", Json.bool k.monotone),
                  ("fuels", Json.bool k.fuels), ("lengths", Json.bool k.lengths)])]
  | "validate.monotone" =>
    let rated ← jRat (← fld j "rated"); let eta ← jTable (← fld j "eta")
    -- every sample load must be in the table
    for k in List.range 200 do
      let l := Comp.load rated (Comp.knotOut rated k)
      if (eta.get? l).isNone then return needJ "eta" l
    return Json.bool (monotoneMap eta.fn rated)
  | "validate.number_points" =>
    let units ← (← jArr (← fld j "units")).mapM fun e => do
      return (⟨← jNat (← fld e "mode_len"), ← jBool (← fld e "shares_always"), ← jNat (← fld e "power_len")⟩ : History.UnitLens)
    return natJ (History.numberPoints (← jNat (← fld j "consumers")) (← jNats (← fld j "status")) units (← jNats (← fld j "breakers")))
  | _ => throw s!"unknown op {op}"

end Driver
