import Driver.Util
import FeemsModel.Model.Profile
open Lean Feems Feems.Profile

namespace Driver

def preparedJ (p : Prepared) (k m : Nat) : Json :=
  let s := split p k m
  obj [("P", ratsJ p.P), ("aux", ratsJ p.aux), ("dt", ratsJ p.dt), ("per_propulsor", ratsJ s.1), ("per_aux_load", ratsJ s.2)]

def jAux (j : Json) : Except String Aux :=
  match j with
  | .arr _ => do return .series (← jRats j)
  | _ => do return .scalar (← jRat j)

def profileOp (op : String) (j : Json) : Except String Json := do
  -- the number of propulsors: given, or (the plant's make-up given) counted by the model
  let k ← match (j.getObjVal? "drives").toOption with
    | some d => do
      let k := propulsors (← jNat d) (← jNat (fldD j "mech_loads" (natJ 0))) (← jBool (fldD j "shaft_lines" (Json.bool false)))
      pure (if k == 0 then 1 else k)
    | none => jNat (fldD j "propulsors" (natJ 1))
  let m ← jNat (fldD j "aux_loads" (natJ 1))
  match op with
  | "profile.series" =>
    return preparedJ (fromSeries (← jRats (← fld j "t")) (← jRats (← fld j "P")) (← jAux (← fld j "aux"))) k m
  | "profile.statistics" =>
    return preparedJ (fromStatistics (← jRats (← fld j "P")) (← jRats (← fld j "dt")) (← jAux (← fld j "aux"))) k m
  | "profile.gymir" =>
    let t ← jRats (← fld j "t"); let P ← jRats (← fld j "P")
    return preparedJ (fromGymir (t.zip P) (← jRat (← fld j "aux"))) k m
  | "profile.proto" =>
    let t ← jRats (← fld j "t"); let P ← jRats (← fld j "P"); let a ← jRats (← fld j "aux_per_sample")
    return preparedJ (fromProto (t.zip (P.zip a)) (← jRat (← fld j "aux"))) k m
  | _ => throw s!"unknown op {op}"

end Driver
