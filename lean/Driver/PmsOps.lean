import Driver.Util
import FeemsModel.Model.Pms
open Lean Feems Feems.Pms

namespace Driver

def pmsOp (op : String) (j : Json) : Except String Json := do
  match op with
  | "pms.pick" =>
    let rs ← jRats (← fld j "ratings"); let f ← jRat (← fld j "f")
    let loads ← jRats (← fld j "loads")
    return Json.arr (loads.map fun L => boolsJ (pick rs f L)).toArray
  | "pms.table" =>
    let rs ← jRats (← fld j "ratings"); let f ← jRat (← fld j "f")
    return Json.arr ((sortedEntries rs f).map fun e => Json.arr #[ratJ e.1, boolsJ e.2]).toArray
  | "pms.equal_size" =>
    let n ← jNat (← fld j "n"); let r ← jRat (← fld j "r"); let f ← jRat (← fld j "f")
    let loads ← jRats (← fld j "loads")
    return natsJ (loads.map fun L => equalSizeCount n r f L)
  | "pms.bus_load" =>
    let c ← jRat (← fld j "consumers")
    let ps ← jRats (← fld j "pti_power"); let ms ← jRats (← fld j "pti_mode")
    return ratJ (busLoad c (ps.zip ms))
  | _ => throw s!"unknown op {op}"

end Driver
