import Driver.Util
import FeemsModel.Model.Component
import FeemsModel.Model.Storage
open Lean Feems Feems.Comp

namespace Driver

abbrev Table := List (Rat × Rat)

def jTable (j : Json) : Except String Table := do
  (← jArr j).mapM fun e => do
    match (← jRats e) with
    | [k, v] => return (k, v)
    | _ => throw "table entry must be [key, value]"

def Table.get? (t : Table) (k : Rat) : Option Rat := (t.find? (fun kv => kv.1 = k)).map (·.2)
/-- oracle table as a function; the driver checks beforehand that every key the model will ask
for is present (`need`), so the default is never used in a reported result -/
def Table.fn (t : Table) : Rat → Rat := fun k => (t.get? k).getD 1

def needJ (kind : String) (k : Rat) : Json := obj [("need", Json.arr #[Json.str kind, ratJ k])]

def compOp (op : String) (j : Json) : Except String Json := do
  match op with
  | "comp.load" =>
    return ratJ (load (← jRat (← fld j "rated")) (← jRat (← fld j "p")))
  | "comp.convert" =>
    let rated ← jRat (← fld j "rated"); let p ← jRat (← fld j "p")
    let eta ← jTable (← fld j "eta"); let inv ← jTable (← fld j "inv")
    let dir ← jStr (← fld j "dir")
    let usesFwd := match dir with
      | "in_from_out" => decide (0 ≤ p)
      | "in_from_out_arr" => decide (0 < p)
      | _ => !decide (0 < p)
    if usesFwd then
      if (eta.get? (load rated p)).isNone then return needJ "eta" (load rated p)
    else
      if (inv.get? p).isNone then return needJ "inv" p
    let r := match dir with
      | "in_from_out" => inFromOut eta.fn inv.fn rated p
      | "in_from_out_arr" => inFromOutArr eta.fn inv.fn rated p
      | _ => outFromIn eta.fn inv.fn rated p
    return obj [("value", ratJ r), ("branch", Json.str (if usesFwd then "forward" else "inverse")),
                ("eff", if usesFwd then ratJ (effHat eta.fn (load rated p)) else Json.null)]
  | "comp.inverse_table" =>
    -- the interpolated inverse computed by the model alone from the points of the characteristic
    let rated ← jRat (← fld j "rated")
    let pts ← (← jArr (← fld j "points")).mapM fun p => do
      match ← jRats p with
      | [a, b] => pure (a, b)
      | _ => throw "expected [load, efficiency]"
    let vs ← jRats (← fld j "at")
    match Feems.Pchip.curve pts 0 with
    | .error e => throw e
    | .ok _ =>
      let η := etaOfPoints pts
      return obj [("accepted", Json.bool (tableMonotoneB η rated)),
                  ("first", ratJ (knotIn η rated 0)), ("last", ratJ (knotIn η rated 199)),
                  ("values", ratsJ (vs.map (invTable η rated)))]
  | "comp.machine" =>
    let rated ← jRat (← fld j "rated"); let p ← jRat (← fld j "p")
    let eta ← jTable (← fld j "eta"); let inv ← jTable (← fld j "inv")
    let role ← match (← jStr (← fld j "role")) with
      | "source" => pure Role.source
      | "consumer" => pure Role.consumer
      | "pti_pto" => pure Role.ptiPto
      | r => throw s!"unknown role {r}"
    let toShaft ← jBool (← fld j "to_shaft")
    -- which primitive, for the need check
    let useInFromOut := (role == Role.source) == toShaft
    let usesFwd := if useInFromOut then decide (0 ≤ p) else !decide (0 < p)
    if usesFwd then
      if (eta.get? (load rated p)).isNone then return needJ "eta" (load rated p)
    else
      if (inv.get? p).isNone then return needJ "inv" p
    let r := if toShaft then shaftFromElectric role eta.fn inv.fn rated p else electricFromShaft role eta.fn inv.fn rated p
    return obj [("value", ratJ r), ("branch", Json.str (if usesFwd then "forward" else "inverse"))]
  | "comp.serial" =>
    -- stages: [{rated, eta: table}]
    let stagesJ ← jArr (← fld j "stages")
    let stagesT ← stagesJ.mapM fun s => do
      return ((← jRat (← fld s "rated")), (← jTable (← fld s "eta")))
    let stages : List Stage := stagesT.map fun (r, t) => ⟨r, t.fn⟩
    -- need check: every stage load at every sample point
    let mut missing : List Json := []
    for k in List.range 11 do
      let x : Rat := (k : Rat) / 10
      for (st, l) in stagesT.zip (stageLoads x stages) do
        if (st.2.get? l).isNone then missing := missing ++ [Json.arr #[natJ (stagesT.idxOf st), ratJ l]]
    if !missing.isEmpty then return obj [("need_stage_loads", Json.arr missing.toArray)]
    return obj [("points", Json.arr ((serialPoints stages).map fun p => Json.arr #[ratJ p.1, ratJ p.2]).toArray),
                ("legacy_abscissa", ratsJ ((List.range 11).map fun (k : Nat) => serialAbscissaLegacy stages ((k : Rat) / 10)))]
  | "comp.convert_modelled" =>
    -- the two bidirectional conversions of a component, characteristic AND interpolated inverse computed by the model
    let rated ← jRat (← fld j "rated")
    let pts ← (← jArr (← fld j "points")).mapM fun p => do
      match ← jRats p with
      | [a, b] => pure (a, b)
      | _ => throw "expected [load, efficiency]"
    let ps ← jRats (← fld j "p")
    let dir ← jStr (← fld j "dir")
    match Feems.Pchip.curve pts 0 with
    | .error e => throw e
    | .ok _ =>
      let η := etaOfPoints pts
      let inv := invTable η rated
      return ratsJ (ps.map fun p => if dir == "out_from_in" then outFromIn η inv rated p else inFromOut η inv rated p)
  | "comp.serial_modelled" =>
    -- stages: [{rated, points}]; the train's efficiency at the given system loads, by the model alone
    let stagesJ ← jArr (← fld j "stages")
    let stages : List Stage ← stagesJ.mapM fun s => do
      let pts ← (← jArr (← fld s "points")).mapM fun p => do
        match ← jRats p with
        | [a, b] => pure (a, b)
        | _ => throw "expected [load, efficiency]"
      match Feems.Pchip.curve pts 0 with
      | .error e => throw e
      | .ok _ => pure (⟨← jRat (← fld s "rated"), etaOfPoints pts⟩ : Stage)
    let xs ← jRats (← fld j "at")
    return ratsJ (xs.map (serialEta stages))
  | "comp.serial_loads" =>
    let stagesJ ← jArr (← fld j "stages")
    let rs ← stagesJ.mapM fun s => do jRat (← fld s "rated")
    let stages : List Stage := rs.map fun r => ⟨r, fun _ => 1⟩
    return Json.arr ((List.range 11).map fun (k : Nat) => ratsJ (stageLoads ((k : Rat) / 10) stages)).toArray
  | "comp.storage" =>
    -- battery / supercapacitor (system): terminal <-> cell, converter values supplied as tables
    let ηc ← jRat (← fld j "eta_c"); let ηd ← jRat (← fld j "eta_d")
    let p ← jRat (← fld j "p")
    let dir ← jStr (← fld j "dir")
    let conv ← jTable (← fld j "conv")
    if dir == "out_from_in" then
      -- terminal power -> (converter) -> cell
      match conv.get? p with
      | none => return needJ "conv" p
      | some c => return obj [("value", ratJ (Storage.cell ηc ηd c))]
    else
      -- cell power -> terminal -> (converter input)
      let tpow := Storage.terminal ηc ηd p
      match conv.get? tpow with
      | none => return needJ "conv" tpow
      | some c => return obj [("value", ratJ c), ("terminal", ratJ tpow)]
  | _ => throw s!"unknown op {op}"

end Driver
