import Driver.Util
import Driver.FuelOps
import FeemsModel.Model.ComponentResult
open Lean Feems Feems.CompResult

namespace Driver

def jKindCR (s : String) : Except String CompResult.Kind :=
  match s with
  | "main_engine" => .ok .mainEngine
  | "genset" => .ok .genset
  | "fuel_cell" => .ok .fuelCell
  | "generator" => .ok .generator
  | "pti_pto" => .ok .ptiPto
  | "storage" => .ok .storage
  | "shore_power" => .ok .shorePower
  | "other_load" => .ok .otherLoad
  | "propulsion" => .ok .propulsion
  | "coges" => .ok .coges
  | _ => .error s!"unknown component kind {s}"

/-- fuel series: [[type, origin, spec, [rate…]], …] -/
def jFuelSeries (j : Json) : Except String (List (Fuel.Kind × List Rat)) := do
  (← jArr j).mapM fun e => do
    match (← jArr e) with
    | [t, o, s, r] => return (⟨← jNat t, ← jNat o, ← jNat s⟩, ← jRats r)
    | _ => throw "fuel series entry must be [type, origin, spec, rates]"

def compResultOp (op : String) (j : Json) : Except String Json := do
  match op with
  | "compresult.eval" =>
    let k ← jKindCR (← jStr (← fld j "kind"))
    let r := eval k (← jBool (← fld j "mech_side")) (← jRats (← fld j "pout")) (← jRats (← fld j "pin"))
      (← jRats (← fld j "dt")) (← jFuelSeries (← fld j "fuel")) (← jRat (← fld j "stored_kj")) (← jRats (← fld j "load"))
    let f := r.fig
    return obj [("cons_electric", ratJ f.consElectric), ("cons_mechanical", ratJ f.consMechanical), ("stored", ratJ f.stored),
                ("input_mechanical", ratJ f.inputMechanical), ("input_electric", ratJ f.inputElectric),
                ("propulsion", ratJ f.propulsion), ("auxiliary", ratJ f.auxiliary), ("hours_main", ratJ f.hoursMain),
                ("hours_genset", ratJ f.hoursGenset), ("hours_fuel_cell", ratJ f.hoursFuelCell), ("hours_pti_pto", ratJ f.hoursPtiPto),
                ("fuel", recJ r.fuel), ("load", optRatJ r.loadRatio)]
  | _ => throw s!"unknown op {op}"

end Driver
